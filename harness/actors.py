"""Actor layer binding: the fixed driver machine of spec/SCActors.tla, its operation table, the async
driver under virtual time, and the projection (alive actors, children maps, system registry, per-actor
received events, pending delayed sends) compared with the model after every driver step."""
from __future__ import annotations

import asyncio
import json
import os
import re
from collections import deque
from typing import Any, Dict, List, Optional, Tuple

from . import rt, tla
from .rt import MachineLogic, create_machine
from .tla import Rec
from .vloop import VLoop

from xstate_statemachine.interpreter import Interpreter  # noqa: E402

NONE = "NONE"


def op(name, kind, **kw) -> Rec:
    r = Rec(name=name, op=kind, key=NONE, eid=NONE, sid=NONE, to=NONE, ev=NONE, delay=0)
    r.update(kw)
    return r


OPS: List[Rec] = [
    op("SP_w", "spawn", key="w"),
    op("SP_w_a1", "spawn", key="w", eid="a1"),
    op("SP_v_a1", "spawn", key="v", eid="a1"),
    op("SP_w_a2_s1", "spawn", key="w", eid="a2", sid="s1"),
    op("SP_v_s1", "spawn", key="v", sid="s1"),
    op("SP_v_w", "spawn", key="v", eid="w"),          # an explicit id equal to the service key another child is spawned from
    op("SP_v_ids1", "spawn", key="v", eid="s1"),      # an explicit id equal to another actor's systemId
    op("ST_a1_X", "send", to="a1", ev="X"),
    op("ST_w_X", "send", to="w", ev="X"),
    op("ST_s1_Y", "send", to="s1", ev="Y"),
    op("ST_zz_X", "send", to="zz", ev="X"),
    op("ST_a1_PING", "send", to="a1", ev="PING"),
    op("ST_a1_ESC", "send", to="a1", ev="ESC"),
    op("ST_a1_GSP", "send", to="a1", ev="GSP"),
    op("ST_a1_GST", "send", to="a1", ev="GST"),
    op("ST_a1_FIN", "send", to="a1", ev="FIN"),       # the child reaches its final state (status done)
    op("ST_sg_X", "send", to="sg", ev="X"),
    op("FW_a1", "send", to="a1", ev="FW_a1"),
    op("STD_a1_X_50_i1", "send", to="a1", ev="X", delay=50, sid="i1"),
    op("STD_a2_Y_80_i1", "send", to="a2", ev="Y", delay=80, sid="i1"),
    op("STD_a1_Y_70_i1", "send", to="a1", ev="Y", delay=70, sid="i1"),   # same id, same target: supersedes a sleeping send
    op("STD_a1_Y_50", "send", to="a1", ev="Y", delay=50),
    op("CAN_i1", "cancel", sid="i1"),
    op("CAN_zz", "cancel", sid="zz"),
    op("SC_a1", "stopchild", to="a1"),
    op("SC_w", "stopchild", to="w"),
    op("SC_s1", "stopchild", to="s1"),
    op("SC_zz", "stopchild", to="zz"),
]


def builtin_for(o: Rec) -> dict:
    if o["op"] == "spawn":
        return {"type": "xstate.spawnChild", "params": {"src": o["key"], "id": None if o["eid"] == NONE else o["eid"],
                                                       "systemId": None if o["sid"] == NONE else o["sid"]}}
    if o["op"] == "send":
        if o["name"].startswith("FW_"):
            return {"type": "xstate.forwardTo", "params": {"to": o["to"]}}
        p = {"to": o["to"], "event": o["ev"]}
        if o["delay"]:
            p["delay"] = o["delay"]
        if o["sid"] != NONE:
            p["id"] = o["sid"]
        return {"type": "xstate.sendTo", "params": p}
    if o["op"] == "cancel":
        return {"type": "xstate.cancel", "params": {"sendId": o["sid"]}}
    return {"type": "xstate.stopChild", "params": {"id": o["to"]}}


class World:
    """One fresh actor system: machines, logic that records receptions per actor id."""

    def __init__(self) -> None:
        self.rec: Dict[str, List[str]] = {}
        self.instances: List[Any] = []   # every child interpreter the engine created, in creation order

        def record(interp, ctx, event, action_def):
            t = event.type
            if t.startswith("xstate.error.actor."):
                t = "ESCALATED"
            self.rec.setdefault(interp.id, []).append(t)

        self.record = record
        g_cfg = {"id": "g", "initial": "k", "states": {"k": {"on": {"*": {"actions": ["rec"]}}}}}
        self.g = create_machine(g_cfg, logic=MachineLogic(actions={"rec": record}))
        kid_cfg = {"id": "kid", "initial": "k", "states": {"k": {"on": {
            "PING": {"actions": ["rec", {"type": "xstate.sendParent", "params": {"event": "PONG"}}]},
            "ESC": {"actions": ["rec", {"type": "xstate.escalate", "params": {"error": "boom"}}]},
            "GSP": {"actions": ["rec", {"type": "xstate.spawnChild", "params": {"src": "g", "id": "g1", "systemId": "sg"}}]},
            "GST": {"actions": ["rec", {"type": "xstate.sendTo", "params": {"to": "g1", "event": "X"}}]},
            "FIN": {"target": "fin", "actions": ["rec"]},
            "*": {"actions": ["rec"]}}}, "fin": {"type": "final"}}}
        self.kid = create_machine(kid_cfg, logic=MachineLogic(actions={"rec": record}, services={"g": self.g}))
        on: Dict[str, Any] = {o["name"]: {"actions": ["rec", builtin_for(o)]} for o in OPS}
        on["PONG"] = {"actions": ["rec"]}
        for cid in ("m:a1", "m:a2"):
            on[f"xstate.error.actor.{cid}"] = {"actions": ["rec"]}
        root_cfg = {"id": "m", "initial": "s", "states": {"s": {"on": on}}}
        self.root_machine = create_machine(root_cfg, logic=MachineLogic(actions={"rec": record},
                                                                        services={"w": self.kid, "v": self.kid}))


UUID = re.compile(r"[0-9a-f]{8}-[0-9a-f]{4}-[0-9a-f]{4}-[0-9a-f]{4}-[0-9a-f]{12}")


class Canon:
    def __init__(self) -> None:
        self.map: Dict[str, str] = {}

    def __call__(self, actor_id: str) -> str:
        def sub(m):
            u = m.group(0)
            if u not in self.map:
                self.map[u] = "#" + str(len(self.map) + 1)
            return self.map[u]
        return UUID.sub(sub, actor_id)


def walk_actors(root) -> List[Any]:
    out, dq = [], deque([root])
    while dq:
        a = dq.popleft()
        out.append(a)
        for c in a._actors.values():
            dq.append(c)
    return out


def observe(root, world: World, canon: Canon, loop: VLoop, pending: list) -> dict:
    actors = walk_actors(root)
    for a in world.instances:            # creation order
        canon(a.id)
    reachable = {id(a) for a in actors}
    alive = sorted(canon(a.id) for a in actors if a.status == "running")
    fin = sorted(canon(a.id) for a in actors if a.status == "done")
    orphans = [canon(a.id) for a in world.instances if id(a) not in reachable and a.status == "running"]
    kids = {canon(a.id): sorted(canon(k) for k in a._actors) for a in actors if a.status == "running" or a is root}
    sysreg = {k: canon(v.id) for k, v in root._system.items()}
    rec = {canon(k): list(v) for k, v in world.rec.items() if v}
    pend = sorted([[sid or NONE, canon(to), ev, due] for (sid, to, ev, due, task) in pending if not task.done()])
    return {"alive": alive, "fin": fin, "orphans": orphans, "kids": kids, "sys": sysreg, "rec": rec, "pend": pend,
            "now": round(loop.time() * 1000)}


class TracedRoot(Interpreter):
    """Records delayed sends (id, target, event, deadline) next to the tasks the engine creates."""

    _pending: list

    async def _deliver(self, actor, target_event, delay, send_id):
        before = set(self.task_manager.get_tasks_by_owner(self.id))
        r = await super()._deliver(actor, target_event, delay, send_id)
        if delay:
            new = set(self.task_manager.get_tasks_by_owner(self.id)) - before
            due = round(asyncio.get_event_loop().time() * 1000 + delay)
            for t in new:
                self._pending.append((send_id, actor.id, target_event.type, due, t))
        return r


def run_ops(steps: List[dict]) -> List[dict]:
    """steps: [{op: name | 'advance' | 'stop'}]; returns the observation after every step."""
    loop = VLoop()
    asyncio.set_event_loop(loop)
    res = []
    import xstate_statemachine.interpreter as _im

    orig_cls = _im.Interpreter
    try:
        world = World()
        canon = Canon()

        class Child(orig_cls):          # children are created through the module-level name: observe them
            def __init__(self, machine, *a, **k):
                super().__init__(machine, *a, **k)
                world.instances.append(self)

        _im.Interpreter = Child
        root = TracedRoot(world.root_machine)
        root._pending = []
        loop.run_coro(root.start())
        for st in steps:
            try:
                if st["op"] == "advance":
                    nd = loop.next_deadline()
                    if nd is not None:
                        loop.advance_to(nd)
                elif st["op"] == "stop":
                    loop.run_coro(root.stop())
                else:
                    loop.run_coro(root.send(st["op"]))
            except Exception as ex:
                world.rec.setdefault("driver_error", []).append(type(ex).__name__)
            res.append(observe(root, world, canon, loop, root._pending))
        try:
            loop.run_coro(root.stop())
        except Exception:
            pass
    finally:
        try:
            for t in asyncio.all_tasks(loop):
                t.cancel()
            loop.run_idle()
        except Exception:
            pass
        _im.Interpreter = orig_cls
        asyncio.set_event_loop(None)
        loop.close()
    return res


ACT_CFG = """SPECIFICATION Spec
CONSTANTS
  Ops <- OpsC
  MaxDepth = {depth}
  MaxActors = {maxactors}
  PropSetA = {{"C15"}}
VIEW View
CONSTRAINT Bound
ACTION_CONSTRAINT EmitA
CHECK_DEADLOCK FALSE
"""


def canon_astate(s: dict) -> dict:
    def fix(x):
        return {} if isinstance(x, list) else dict(x)
    alive = sorted(s.get("alive") or [])
    return {"alive": alive, "fin": sorted(s.get("fin") or []), "orphans": list(s.get("orphans") or []), "kids": {k: sorted(v) for k, v in fix(s.get("kids") or {}).items() if k in alive or k == "m"},
            "sys": fix(s.get("sys") or {}), "rec": {k: list(v) for k, v in fix(s.get("rec") or {}).items() if v},
            "pend": sorted([list(p) for p in (s.get("pend") or [])]),
            # registration numbers: part of the state's identity (history), never compared with the engine
            "gen": sorted(s.get("gen") or [])}


def model_check(workdir: str, ops: List[Rec], depth: int, maxactors: int, workers=4):
    os.makedirs(workdir, exist_ok=True)
    root = "RunSCActors"
    with open(os.path.join(workdir, root + ".tla"), "w") as f:
        f.write(f"---- MODULE {root} ----\nEXTENDS SCActors\nOpsC == {tla.to_tla(list(ops))}\n====\n")
    with open(os.path.join(workdir, root + ".cfg"), "w") as f:
        f.write(ACT_CFG.format(depth=depth, maxactors=maxactors))
    import subprocess
    import time

    cmd = ["java", "-Xmx4g", "-Xss64m", "-XX:+UseParallelGC", f"-DTLA-Library={tla.SPEC_DIR}", "-cp", f"{tla.JAR}:{tla.DEPS}",
           "tlc2.TLC", "-workers", str(workers), "-metadir", os.path.join(workdir, "meta"), "-noGenerateSpecTE", "-continue",
           "-config", root + ".cfg", root + ".tla"]
    t0 = time.time()
    outp = os.path.join(workdir, "tlc.out")
    with open(outp, "w") as of:
        p = subprocess.run(cmd, cwd=workdir, stdout=of, stderr=subprocess.STDOUT, timeout=1700)
    edges, stats, errs = [], (0, 0), []
    with open(outp) as f:
        for line in f:
            if line.startswith('"{'):
                o = json.loads(json.loads(line))
                edges.append({"from": canon_astate(o["from"]), "to": canon_astate(o["to"]), "step": o["step"], "now": o.get("now", 0),
                              "prop": {k: sorted(v or []) for k, v in o["prop"].items()}})
            m = tla._STATS.search(line)
            if m:
                stats = (int(m.group(1)), int(m.group(2)))
            if line.startswith("Error:"):
                errs.append(line.strip())
    return edges, stats, errs, p.returncode, time.time() - t0


def snapshot_leg(steps: List[dict], conts: List[str]) -> List[dict]:
    """C12 with live child actors: run `steps` on a fresh root, snapshot it, restore a second root from the
    snapshot, and compare - the actor tree right after the restore, the re-snapshot, and for every continuation op
    (run on the original and on the restored root) the resulting actor tree and what was newly received."""
    import json as _json
    loop = VLoop()
    asyncio.set_event_loop(loop)
    bad: List[dict] = []
    import xstate_statemachine.interpreter as _im
    orig_cls = _im.Interpreter
    STRUCT = ("alive", "fin", "kids", "sys")
    try:
        world = World()
        canon = Canon()

        class Child(orig_cls):
            def __init__(self, machine, *a, **k):
                super().__init__(machine, *a, **k)
                world.instances.append(self)

        _im.Interpreter = Child

        def fresh_pair():
            world.rec.clear()
            world.instances.clear()
            root = TracedRoot(world.root_machine)
            root._pending = []
            loop.run_coro(root.start())
            for st in steps:
                if st["op"] == "advance":
                    nd = loop.next_deadline()
                    if nd is not None:
                        loop.advance_to(nd)
                elif st["op"] == "stop":
                    loop.run_coro(root.stop())
                else:
                    loop.run_coro(root.send(st["op"]))
            snap = root.get_snapshot()
            root2 = TracedRoot.from_snapshot(snap, world.root_machine)
            root2._pending = []
            if root2.status == "running":
                loop.run_coro(root2.start())
            return root, root2, snap

        def struct(r):
            o = observe(r, world, canon, loop, r._pending)
            return {k: o[k] for k in STRUCT}

        root, root2, snap = fresh_pair()
        s1, s2 = struct(root), struct(root2)
        if s1 != s2:
            bad.append({"clause": "restored_actor_tree_differs", "cont": None, "original": s1, "restored": s2})
        try:
            a, b = _json.loads(snap), _json.loads(root2.get_snapshot())
            if a != b:
                diff = [k for k in sorted(set(a) | set(b)) if a.get(k) != b.get(k)]
                bad.append({"clause": "resnapshot_differs:" + ",".join(diff), "cont": None, "original": {k: a.get(k) for k in diff},
                            "restored": {k: b.get(k) for k in diff}})
        except Exception as ex:  # noqa: BLE001
            bad.append({"clause": "resnapshot_failed:" + type(ex).__name__, "cont": None, "original": None, "restored": None})
        for r in (root, root2):
            try:
                loop.run_coro(r.stop())
            except Exception:  # noqa: BLE001
                pass
        if not bad:
            for c in conts:
                root, root2, _snap = fresh_pair()
                outs = []
                for r in (root, root2):
                    before = {k: len(v) for k, v in world.rec.items()}
                    try:
                        if c == "stop":
                            loop.run_coro(r.stop())
                        else:
                            loop.run_coro(r.send(c))
                    except Exception as ex:  # noqa: BLE001
                        outs.append(("EXC", type(ex).__name__))
                        continue
                    delta = {canon(k): v[before.get(k, 0):] for k, v in world.rec.items() if len(v) > before.get(k, 0)}
                    outs.append((struct(r), delta))
                if outs[0] != outs[1]:
                    bad.append({"clause": "continuation_differs", "cont": c, "original": outs[0], "restored": outs[1]})
                for r in (root, root2):
                    try:
                        loop.run_coro(r.stop())
                    except Exception:  # noqa: BLE001
                        pass
    finally:
        try:
            for t in asyncio.all_tasks(loop):
                t.cancel()
            loop.run_idle()
        except Exception:  # noqa: BLE001
            pass
        _im.Interpreter = orig_cls
        asyncio.set_event_loop(None)
        loop.close()
    return bad
