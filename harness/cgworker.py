"""Runs inside a fresh subprocess: imports the modules `xsm generate-template` wrote and reports what they are.

usage: python -m harness.cgworker <outdir> <config.json> <template> <sentinel>
prints one JSON object: {imported, silent, built, nf, trace, bound, errors, stdout}
"""
from __future__ import annotations

import contextlib
import importlib
import io
import json
import os
import sys


def main() -> None:
    outdir, cfg_path, template, sentinel = sys.argv[1:5]
    res = {"imported": False, "silent": False, "built": False, "nf": None, "trace": None, "bound": None, "errors": [],
           "stdout": "", "modules": []}
    import logging
    logging.disable(logging.CRITICAL)
    from harness import frontend as fe          # sets up sys.path for the library
    from xstate_statemachine import MachineNode, SyncInterpreter, create_machine
    with open(cfg_path) as f:
        cfg = json.load(f)
    os.chdir(outdir)
    sys.path.insert(0, outdir)
    before = set(os.listdir(outdir))
    mods_before = set(sys.modules)
    files = sorted(f for f in before if f.endswith(".py"))
    buf_out, buf_err = io.StringIO(), io.StringIO()
    mods = {}
    try:
        with contextlib.redirect_stdout(buf_out), contextlib.redirect_stderr(buf_err):
            # the logic module first (the runner imports it)
            for f in sorted(files, key=lambda n: ("runner" in n, n)):
                name = f[:-3]
                mods[name] = importlib.import_module(name)
        res["imported"] = True
    except BaseException as ex:  # noqa: BLE001
        res["errors"].append(f"import: {type(ex).__name__}: {str(ex)[:200]}")
    res["stdout"] = (buf_out.getvalue() + buf_err.getvalue())[:300]
    after = set(os.listdir(outdir)) - {"__pycache__"}
    res["silent"] = res["imported"] and not buf_out.getvalue() and not buf_err.getvalue() and after <= (before | {"__pycache__"}) \
        and not os.path.exists(sentinel)
    res["modules"] = sorted(mods)
    if not res["imported"]:
        print(json.dumps(res))
        return
    pythonic = template.startswith("pythonic")
    logic_mod = next((m for n, m in mods.items() if "runner" not in n), None) or next(iter(mods.values()))
    if pythonic:
        machine = None
        try:
            cands = [v for v in vars(logic_mod).values() if isinstance(v, MachineNode)]
            if cands:
                machine = cands[0]
            elif callable(getattr(logic_mod, "build", None)):
                machine = logic_mod.build()
            else:
                for name, value in vars(logic_mod).items():
                    if name.startswith("_") or not isinstance(value, type) or getattr(value, "__module__", None) != logic_mod.__name__:
                        continue
                    creator = getattr(value, "create_machine", None)
                    if callable(creator):
                        machine = creator()
                        break
        except BaseException as ex:  # noqa: BLE001
            res["errors"].append(f"build: {type(ex).__name__}: {str(ex)[:200]}")
        if isinstance(machine, MachineNode):
            res["built"] = True
            try:
                res["nf"] = fe.nf_lib(machine)
            except BaseException as ex:  # noqa: BLE001
                res["errors"].append(f"nf: {type(ex).__name__}: {str(ex)[:200]}")
            # behaviour: the generated machine and create_machine(json) under the generated logic, same events
            try:
                expected = create_machine(cfg, logic=machine.logic)
                evs = fe.events_of(cfg)
                trace = []
                from harness import vthreads
                vctl = vthreads.Controller()          # `after` timers never fire: nothing here depends on real time
                patch = vthreads.patched(vctl)
                patch.__enter__()
                for m in (machine, expected):
                    it = SyncInterpreter(m)
                    seq = []
                    try:
                        it.start()
                        seq.append(sorted(s.id for s in it._active_state_nodes))
                        for _ in range(2):
                            for e in evs:
                                it.send(e)
                                seq.append(sorted(s.id for s in it._active_state_nodes))
                    except BaseException as ex:  # noqa: BLE001
                        seq.append("EXC " + type(ex).__name__)
                    finally:
                        try:
                            it.stop()
                        except BaseException:  # noqa: BLE001
                            pass
                    trace.append(seq)
                vctl.drain()
                patch.__exit__(None, None, None)
                res["trace"] = trace[0] == trace[1]
                if not res["trace"]:
                    res["errors"].append(f"trace: generated {trace[0][:6]} expected {trace[1][:6]}")
            except BaseException as ex:  # noqa: BLE001
                res["errors"].append(f"trace: {type(ex).__name__}: {str(ex)[:200]}")
    else:
        judged = True
        try:
            # a source JSON the library itself refuses (e.g. a Stately export without `states`) cannot be bound by
            # anybody: the generated logic is not to blame, binding is not judged
            create_machine(cfg, logic=fe.any_logic())
        except BaseException as ex:  # noqa: BLE001
            judged = False
            res["bound"] = True
            res["errors"].append(f"source config refused by create_machine ({type(ex).__name__}): binding not judged")
        try:
            if not judged:
                raise StopIteration
            provider = None
            if template == "class-json":
                # the runner instantiates the generated class and passes it as a logic provider
                for name, value in vars(logic_mod).items():
                    if isinstance(value, type) and getattr(value, "__module__", None) == logic_mod.__name__ and not name.startswith("_"):
                        provider = value()
                        break
            m = (create_machine(cfg, logic_providers=[provider]) if provider is not None
                 else create_machine(cfg, logic_modules=[logic_mod]))
            res["bound"] = True
            res["nf"] = fe.nf_lib(m)
        except StopIteration:
            pass
        except BaseException as ex:  # noqa: BLE001
            res["bound"] = False
            res["errors"].append(f"bind: {type(ex).__name__}: {str(ex)[:200]}")
    print(json.dumps(res, default=str))


if __name__ == "__main__":
    main()
