"""property id -> module (under harness.checks) that decides it"""
REGISTRY = {
    "C01": "core",
    "C02": "core",
    "C03": "core",
    "C04": "c04",
    "C05": "c05",
    "C06": "core",
    "C07": "core",
    "C08": "c08",
    "C09": "c08",
    "C10": "core",
    "C12": "c12",
    "C13": "core",
    "C14": "c14",
    "C16": "c16",
    "C20": "core",
    "C11": "core",
}
