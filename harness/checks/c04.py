"""C04: run-to-completion and lossless, ordered event processing.

Four bindings of the specification to the code:
  core    spec/MCCore.tla edges of families R and A (raise / assign reactions, self-feeding chains) incl.
          send_events batches, both interpreters: Prop C04 (SCProps.C04Log) on every step's log - events
          are dequeued in acceptance order, none lost or duplicated, the next dequeue only after the
          previous event settled, nothing processed inside a transition;
  sched   spec/SCSched.tla edges of families X (timers, slow actions, entry-raise + eventless-leave races)
          and V (services) on the async engine under virtual time: the same Prop with the queue carried
          between driver steps (sends while the consumer is suspended, expiries and results as producers);
  threads spec/SCSyncFlag.tla: the sync engine's re-entrancy flag at thread granularity (test and set
          separate, loop-exit test and reset separate); TLC checks 'one macrostep at a time' and 'nothing
          stranded'; every counterexample and a sample of complete behaviours are forced on the real
          SyncInterpreter with real threads parked at instrumented yield points (harness/flagrace.py);
  bursts  random walks with send_events bursts on the async engine, trace-validated by TLC.
"""
from __future__ import annotations

import random
import time
from typing import Any, Dict, List

from .. import core_check, flagrace, gen, report
from ..core_check import budget_collect
from . import c08
from .core import NPROC, _size

ASSUMPTIONS = [
    "async producers only ever call queue.put (no suspension), so the interleavings of producers are the orders of their puts; those orders are explored as event sequences / batches, and sends during a suspended macrostep on the scheduling layer",
    "thread interleavings of the sync engine are explored at the instrumented yield points (flag read/write, queue append, loop test, inside an action); bytecode-level preemption is not",
] + c08.ASSUMPTIONS[1:]


def _core_unit(a):
    return core_check.unit(a)


def _sched_unit(a):
    return c08.unit(a)


def thread_part(seed: int, n_paths: int):
    """Returns (violations, stats, errors)."""
    violations, errors = [], []
    traces, res = flagrace.tlc_traces()
    init, nodes, succ, gres = flagrace.state_graph()
    stats = {"flag_states": gres.distinct_states, "flag_transitions": gres.states_generated,
             "counterexamples_replayed": 0, "behaviours_replayed": 0, "behaviours_agree": 0}
    if not nodes:
        errors.append("SCSyncFlag state graph empty: " + "; ".join(gres.errors[:2]))
    seen = set()
    dummy = _dummy_built()
    for t in traces:
        key = tuple(t["schedule"])
        if key in seen:
            continue
        seen.add(key)
        r = flagrace.replay_schedule(t["schedule"], ["A", "B"])
        stats["counterexamples_replayed"] += 1
        if r["schedule_mismatch"]:
            errors.append(f"flag schedule not realisable: {r['schedule_mismatch']}")
            continue
        clauses = []
        if r["max_open"] > 1:
            clauses.append("macrosteps_concurrent")
        if r["stranded"]:
            clauses.append("accepted_event_stranded")
        if clauses:
            v = core_check._viol("C04", clauses, "sync", dummy, [{"op": "threads", "ev": "", "gv": {}, "schedule": t["schedule"]}],
                                 [], "thread-schedule", r, None)
            violations.append(v)
    rng = random.Random(seed)
    for p in flagrace.sample_paths(init, succ, n_paths, rng) if nodes else []:
        want = flagrace.final_of(nodes[p[-1][2]]) if p else None
        r = flagrace.replay_schedule([(a, t) for a, t, _ in p], ["A", "B"])
        stats["behaviours_replayed"] += 1
        if r["schedule_mismatch"]:
            errors.append(f"flag behaviour not realisable: {r['schedule_mismatch']}")
        elif want and (r["processed"] == want["processed"] and r["stranded"] == want["stranded"] and r["max_open"] == want["max_open"]):
            stats["behaviours_agree"] += 1
        else:
            errors.append(f"SCSyncFlag disagrees with the engine on a behaviour: want {want} got {r}")
    return violations, stats, errors


def _dummy_built():
    from .. import pipeline

    cfg = {"id": "m", "initial": "s", "states": {"s": {"on": {"A": {"actions": ["mark"]}, "B": {"actions": ["mark"]}}}}}
    sp = gen.Spec(cfg, "flag", "flag-protocol")
    return pipeline.Built(sp)


def _kind_unit(ka):
    k, a = ka
    return (k, (_core_unit if k == "core" else _sched_unit)(a))


def run(prop: str, tier: str, seed: int) -> int:
    t0 = time.time()
    q = tier == "quick"
    core_specs = gen.family_R(seed, 14 if q else 62) + gen.family_A(seed + 1, 9 if q else 22)
    units: List[tuple] = []
    for sp in core_specs:
        for eng in ("sync", "async"):
            units.append(("core", {"specs": [sp], "engine": eng, "props": [prop], "seed": seed, "gvals": ("T", "F"), "mc": True,
                                   "tlc_workers": 2, "walks": (0, 0), "max_states": 100 if q else 600,
                                   "with_batch": sp.family == "R", "with_burst": sp.family == "A"}))
    # bursts on the async engine, trace-validated
    walk_specs = gen.family_R(seed + 2, 6 if q else 20)
    for sp in walk_specs:
        sp.config["maxIterations"] = 1000
    units.append(("core", {"specs": walk_specs, "engine": "async", "props": [prop], "seed": seed, "gvals": ("T", "F"),
                           "mc": False, "tlc_workers": 2, "walks": (12 if q else 30, 20), "burst_walks": True}))
    sspecs = gen.family_X(seed, 9 if q else 22, race=True) + gen.family_V(seed + 1, 6 if q else 20)
    for sp in sspecs:
        units.append(("sched", {"specs": [sp], "maxnow": 200 if q else 320, "waits": (30,) if q else (20, 45),
                                "depth": 6 if q else 8, "tlc_workers": 2, "prop": prop}))
    import concurrent.futures as cf

    with cf.ProcessPoolExecutor(max_workers=NPROC) as ex:
        futs = [ex.submit(_kind_unit, ka) for ka in units]
        tviol, tstats, terrs = thread_part(seed, 60 if q else 150)
        results = budget_collect(futs)
    cov: Dict[str, Any] = {"states": tstats["flag_states"], "transitions": tstats["flag_transitions"], "core_edges_replayed": 0,
                           "sched_edges_replayed": 0, "trace_steps_validated": 0, "divergences": 0, "machines": 0,
                           "thread_level": tstats, "samples": []}
    violations, errors, nontrivial = list(tviol), list(terrs), 0
    for kind, r in results:
        violations += r["violations"]
        errors += r["errors"]
        cov["states"] += r["states"]
        cov["transitions"] += r["transitions"]
        cov["machines"] += r["n_machines"]
        nontrivial += r["nontrivial"]
        if kind == "core":
            cov["core_edges_replayed"] += r["replayed"]
            cov["trace_steps_validated"] += r["trace_steps"]
            cov["divergences"] += r["divergent_edges"] + r["trace_divergent"]
        else:
            cov["sched_edges_replayed"] += r["replayed"]
            cov["divergences"] += r["divergent"]
        if len(cov["samples"]) < 3:
            cov["samples"] += r["samples"][:1]
    cov["samples"].append({"thread_schedule": "TLC counterexample of OneMacrostepAtATime / NothingStranded replayed with real threads",
                           "stats": tstats})
    cov["traces_validated_against_impl"] = (cov["core_edges_replayed"] + cov["sched_edges_replayed"]
                                            + tstats["counterexamples_replayed"] + tstats["behaviours_replayed"])
    cov["evaluations"] = cov["traces_validated_against_impl"] + cov["trace_steps_validated"]
    cov["distinct_nontrivial"] = nontrivial + tstats["behaviours_replayed"]
    cov["exhaustive"] = False
    cov["rule"] = ("core: families R (with every pair batch) and A (with bursts of maxIterations+2) on both engines; scheduling: "
                   "families X incl. entry-raise/eventless-leave races and V on the async engine; threads: complete state graph of the "
                   "two-thread flag protocol, all counterexamples + sampled complete behaviours forced on the real engine; bursts: "
                   "random walks with send_events bursts of up to 40 events on the async engine")
    if cov["divergences"]:
        print(f"DIVERGENCE property={prop}: {cov['divergences']} edges/steps where the code disagrees with the model")
    return report.finalize(prop, tier, seed, t0, violations=violations, coverage=cov, assumptions=ASSUMPTIONS, errors=errors)


def replay(prop: str, path: str) -> int:
    import json

    with open(path) as f:
        rec = json.load(f)
    if rec["steps"] and rec["steps"][-1].get("op") == "threads":
        r = flagrace.replay_schedule([tuple(x) for x in rec["steps"][-1]["schedule"]], ["A", "B"])
        print(r)
        if r["max_open"] > 1 or r["stranded"]:
            print(f"VIOLATION property={prop} replay={path}")
            return 1
        return 0
    from . import core

    return core.replay(prop, path)


def selftest(prop: str, seed: int) -> int:
    return 0
