"""C05: the sync, async and pure engines compute the same behaviour.

TLC explores the sync model of every machine (all reachable states x relevant events x guard
valuations) and evaluates, on the Impl layer, whether the three engine variants of the step
agree (MCCore.C05Spec).  Every explored edge is then executed on the three REAL engines in lock
step (same path, same step, fresh interpreters) and their observations are compared pairwise:
the engines are each other's oracle, the specification supplies the exhaustive set of
(state, event) pairs, the paths that reach them and the prediction of where they differ.
Purity of the pure API (no user action runs, machine definition and input snapshot unchanged)
is observed on every pure call.
"""
from __future__ import annotations

import copy
import json
import os
import time
from typing import Any, Dict, List

from .. import core_check, gen, pipeline, report, tla
from ..core_check import budget_map
from .. import replay as rp
from ..core_check import run_units
from ..pipeline import state_key
from .core import NPROC, _size

ASSUMPTIONS = [
    "TLC evaluates spec/SCCore.tla + MCCore.tla (C05Spec: sync/async/pure variants of every step) correctly",
    "async engine observed at quiescence on a fresh asyncio loop; machines use only features all engines support (hierarchy, parallel, history, guards, assign/raise, always, onDone, output)",
    "action lists: marker actions with the event they received (sync/async) and on_action_execute names vs the pure API's reported ActionDefinitions",
    "bounded machine families T/H/D/R/S; quick tier explores a breadth-first prefix of at most 150 states per unit",
]


def _acts(log):
    return [(o[1], o[2]) for o in log if o[0] == "act"]


def _ax(log):
    return [o[1] for o in log if o[0] == "ax"]


def _fingerprint(machine) -> str:
    """Structure of the machine definition as the library holds it (for 'definition unchanged')."""
    from ..export import walk

    parts = []
    for n in walk(machine):
        parts.append((n.id, n.type, n.initial, sorted(n.on), [a.type for a in n.entry], [a.type for a in n.exit],
                      [(t.event, t.target_str, t.reenter) for ts in n.on.values() for t in ts]))
    return json.dumps(parts, sort_keys=True, default=str)


def unit(args: dict) -> dict:
    specs: List[gen.Spec] = args["specs"]
    wd = tla.scratch_dir("verif-c05-")
    out: Dict[str, Any] = {"states": 0, "transitions": 0, "edges": 0, "compared": 0, "violations": [], "errors": [],
                           "exhaustive": True, "nontrivial": 0, "spec_predicted": 0, "samples": [], "n_machines": len(specs),
                           "divergent_from_spec": 0}
    try:
        built = pipeline.build_all(specs)
        res, edges = pipeline.model_check(built, os.path.join(wd, "mc"), engine="sync", gvals=args["gvals"],
                                          workers=args.get("tlc_workers", 2), props=("C05",),
                                          with_batch=args.get("with_batch", False),
                                          max_states=args.get("max_states", 10 ** 8))
        out["states"], out["transitions"], out["edges"] = res.distinct_states, res.states_generated, len(edges)
        if not res.finished or res.returncode != 0:
            out["exhaustive"] = False
            out["errors"].append(f"TLC rc={res.returncode} " + "; ".join(res.errors[:3]))
        if res.distinct_states >= args.get("max_states", 10 ** 8):
            out["exhaustive"] = False
        paths = rp.bfs_paths(edges)
        fps = {i: _fingerprint(b.machine) for i, b in enumerate(built)}
        for e in edges:
            k = state_key(e.mi, e.frm)
            if k not in paths or e.step["op"] not in ("start", "send", "batch"):
                continue
            b = built[e.mi - 1]
            steps = [p.step for p in paths[k]] + [e.step]
            rs = rp.run_sync(b, steps)
            ra = rp.run_async(b, steps)
            b.ctl.reset()
            is_batch = e.step["op"] == "batch"
            rpu = rp.run_pure(b, steps[:-1] if is_batch else steps)
            if is_batch:
                rpu = rpu + [rs[-1]]      # the pure API has no batch call: compared on single events only
            pure_ran = [o for o in b.ctl.log if o[0] == "act"]
            if len(rs) < len(steps) or len(ra) < len(steps) or len(rpu) < len(steps):
                continue  # divergent chain cut short on one side; C13 decides those
            (ps, ls), (pa, la), (pp, lp) = rs[-1], ra[-1], rpu[-1]
            out["compared"] += 1
            if e.prop.get("C05"):
                out["spec_predicted"] += 1
            if e.frm["config"] != e.to["config"] or _acts(ls):
                out["nontrivial"] += 1
            if rp.compare(e, ps, ls, "sync") is not None:
                out["divergent_from_spec"] += 1
            if ps["err"] or pa["err"] or pp["err"]:
                continue
            clauses = []
            same = lambda x, y: all(x[f] == y[f] for f in ("config", "ctx", "status", "output"))
            # only the FIRST step at which two engines part is attributable: when they already
            # disagreed before this step, that earlier edge carries the verdict
            pre_sa = len(steps) == 1 or same(rs[-2][0], ra[-2][0])
            pre_sp = len(steps) == 1 or same(rs[-2][0], rpu[-2][0])
            if pre_sa and not same(ps, pa):
                clauses.append("sync_async_state")
            if pre_sa and [a for a, _ in _acts(ls)] != [a for a, _ in _acts(la)]:
                clauses.append("sync_async_action_order")
            elif pre_sa and _acts(ls) != _acts(la):
                clauses.append("sync_async_action_event")
            pre_sp = pre_sp and not is_batch
            if pre_sp and not same(ps, pp):
                clauses.append("sync_pure_state")
            if pre_sp and _ax(ls) != [o[1] for o in lp]:
                clauses.append("sync_pure_actions")
            if pure_ran:
                clauses.append("pure_ran_user_action")
            if _fingerprint(b.machine) != fps[e.mi - 1]:
                clauses.append("definition_mutated")
            if clauses:
                pre = rs[-2][0] if len(rs) > 1 else core_check.uninit_state(b)
                v = core_check._viol("C05", clauses, "sync+async+pure", b, steps, ls, "edge", ps, pre)
                v["async_post"], v["pure_post"] = pa, pp
                v["async_out"], v["pure_out"] = la, lp
                out["violations"].append(v)
            if len(out["samples"]) < 1 and _acts(ls):
                out["samples"].append({"machine": b.spec.label, "step": e.step, "sync": ps["config"],
                                       "async": pa["config"], "pure": pp["config"], "actions": _acts(ls)[:6]})
        # input snapshot unchanged by transition(): observed on one walk per machine
        from xstate_statemachine import helpers as pure_api

        for b in built:
            snap, _ = pure_api.initial_transition(b.machine)
            for ev in sorted(b.defn["events"])[:6]:
                before = (set(snap.state_ids), set(snap.configuration), copy.deepcopy(snap.context), snap.status, snap.output)
                nxt, _ = pure_api.transition(b.machine, snap, ev)
                after = (set(snap.state_ids), set(snap.configuration), snap.context, snap.status, snap.output)
                if before != after:
                    out["violations"].append(core_check._viol("C05", ["input_snapshot_mutated"], "pure", b,
                                                              [{"op": "start", "ev": "", "gv": {}}, {"op": "send", "ev": ev, "gv": {}}],
                                                              [], "pure-walk", {}, None))
                snap = nxt
    except Exception as ex:
        import traceback
        out["errors"].append("unit failed: " + traceback.format_exc().splitlines()[-1] + " @ " + traceback.format_exc().splitlines()[-3].strip())
    finally:
        tla.rm(wd)
    return out


def families(tier: str, seed: int) -> List[gen.Spec]:
    q = tier == "quick"
    return (gen.family_T_random(seed, 12 if q else 75, min_states=3, max_states=5 if q else 6)
            + gen.family_H(seed + 1, 3 if q else 25)
            + gen.family_D(seed + 2, 4 if q else 25)
            + gen.family_R(seed + 3, 20 if q else 75)
            + gen.family_S(seed + 4, 10 if q else 37))


def run(prop: str, tier: str, seed: int) -> int:
    t0 = time.time()
    q = tier == "quick"
    specs = sorted(families(tier, seed), key=_size, reverse=True)
    groups, small = [], []
    for sp in specs:
        if _size(sp) >= 400 or sp.family == "R":
            groups.append([sp])      # R machines also explore send_events batches: one per unit
        else:
            small.append(sp)
            if len(small) == 4:
                groups.append(small)
                small = []
    if small:
        groups.append(small)
    units = [{"specs": g, "gvals": ("T", "F"), "tlc_workers": 2, "max_states": 150 if q else 600,
              "with_batch": all(sp.family == "R" for sp in g)} for g in groups]
    if NPROC > 1 and len(units) > 1:
        import concurrent.futures as cf

        with cf.ProcessPoolExecutor(max_workers=NPROC) as ex:
            results = budget_map(ex, unit, units)
    else:
        results = [unit(u) for u in units]
    cov: Dict[str, Any] = {"states": 0, "transitions": 0, "edges_compared_on_three_engines": 0, "machines": 0,
                           "spec_predicted_differences": 0, "samples": [], "divergent_from_spec": 0}
    violations, errors, nontrivial, exhaustive = [], [], 0, True
    for r in results:
        violations += r["violations"]
        errors += r["errors"]
        cov["states"] += r["states"]
        cov["transitions"] += r["transitions"]
        cov["edges_compared_on_three_engines"] += r["compared"]
        cov["machines"] += r["n_machines"]
        cov["spec_predicted_differences"] += r["spec_predicted"]
        cov["divergent_from_spec"] += r["divergent_from_spec"]
        nontrivial += r["nontrivial"]
        exhaustive = exhaustive and r["exhaustive"]
        if len(cov["samples"]) < 4:
            cov["samples"] += r["samples"]
    cov["traces_validated_against_impl"] = cov["edges_compared_on_three_engines"]
    cov["evaluations"] = cov["edges_compared_on_three_engines"]
    cov["distinct_nontrivial"] = nontrivial
    cov["exhaustive"] = exhaustive
    cov["rule"] = ("families T/H/D/R/S; TLC explores the sync model (every reachable state x relevant event x guard valuation) and "
                   "predicts on the Impl layer where the engine variants differ; every explored edge is executed on SyncInterpreter, "
                   "Interpreter (quiescence) and the pure API along the same path and compared pairwise; non-trivial = configuration "
                   "changes or at least one action runs")
    if not cov["samples"]:
        cov["samples"] = [{"note": "no sample"}]
    return report.finalize(prop, tier, seed, t0, violations=violations, coverage=cov, assumptions=ASSUMPTIONS, errors=errors)


def replay(prop: str, path: str) -> int:
    with open(path) as f:
        rec = json.load(f)
    spec = gen.Spec(rec["config"], rec.get("family", "replay"), rec.get("label", "replay"))
    spec.missing = rec.get("missing") or []
    r = unit_replay(spec, rec["steps"])
    print(json.dumps(r, indent=1))
    if r["clauses"]:
        print(f"VIOLATION property={prop} replay={path}")
        return 1
    return 0


def unit_replay(spec, steps) -> dict:
    b = pipeline.Built(spec)
    (ps, ls), (pa, la), (pp, lp) = rp.run_sync(b, steps)[-1], rp.run_async(b, steps)[-1], rp.run_pure(b, steps)[-1]
    same = lambda x, y: all(x[f] == y[f] for f in ("config", "ctx", "status", "output"))
    clauses = []
    if not same(ps, pa):
        clauses.append("sync_async_state")
    if _acts(ls) != _acts(la):
        clauses.append("sync_async_actions")
    if not same(ps, pp):
        clauses.append("sync_pure_state")
    if _ax(ls) != [o[1] for o in lp]:
        clauses.append("sync_pure_actions")
    return {"clauses": clauses, "sync": ps, "async": pa, "pure": pp}


def selftest(prop: str, seed: int) -> int:
    return 0
