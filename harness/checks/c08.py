"""C08 / C09 / C14 on the scheduling layer - async engine under virtual time.

spec/SCSched.tla puts virtual time, timers, slow (suspending) actions and stop() on top of the core
step semantics at the granularity of a deterministic driver; TLC explores every placement of external
events, waits, deadlines (handles of one instant in creation order) and stop() up to a depth/horizon
and evaluates Prop C08 on every edge.  Every edge is executed on the real Interpreter under the
virtual-time loop and the abstract state (configuration, queue contents, virtual now, live timers and
their deadlines, consumer busy-until) plus the visible log are compared.  A violation is reported only
for an observed run: an edge whose replay agreed with the model and whose Prop verdict is non-empty,
or a divergent run whose recorded trace TLC (spec/TraceSched.tla) finds violating.
"""
from __future__ import annotations

import json
import os
import time
from typing import Any, Dict, List

from .. import core_check, gen, pipeline, report, sched, tla
from ..core_check import budget_map
from .core import NPROC

ASSUMPTIONS = [
    "async engine only in this check (the sync engine's timer threads are not driven deterministically; see DESIGN section 12)",
    "virtual time: harness/vloop.py fires timer handles of one instant in (when, creation) order, which is asyncio's order; real-clock accuracy is not examined",
    "slow actions are coroutine actions placed last in a targetless transition (the consumer task is suspended inside the macrostep)",
    "bounded: family X machines, horizon MaxNow, wait grid, depth of driver steps (see coverage.rule)",
]


def unit(args: dict) -> dict:
    specs = args["specs"]
    wd = tla.scratch_dir("verif-c08-")
    out: Dict[str, Any] = {"states": 0, "transitions": 0, "edges": 0, "replayed": 0, "divergent": 0, "violations": [],
                           "errors": [], "nontrivial": 0, "samples": [], "n_machines": len(specs), "trace_steps": 0}
    try:
        built = pipeline.build_all(specs)
        prop = args.get("prop", "C08")
        engine = args.get("engine", "async")
        run_steps = sched.run_sched if engine == "async" else sched.run_sched_sync
        out["engine"] = engine
        res, edges = sched.model_check_sched(built, os.path.join(wd, "mc"), maxnow=args["maxnow"], waits=args["waits"],
                                             depth=args["depth"], props=(prop,), workers=args.get("tlc_workers", 3), engine=engine)
        out["states"], out["transitions"], out["edges"] = res.distinct_states, res.states_generated, len(edges)
        if not res.finished or res.returncode != 0:
            out["errors"].append(f"TLC rc={res.returncode} " + "; ".join(res.errors[:3]))
        paths = sched.bfs(edges)
        traces, tctx = [], []
        for e in edges:
            k = sched.skey(e.mi, e.frm)
            if k not in paths:
                continue
            b = built[e.mi - 1]
            steps = [p.step for p in paths[k]] + [e.step]
            r = run_steps(b, steps)
            post, log = r[-1]
            out["replayed"] += 1
            if e.frm["config"] != e.to["config"] or any(o[0] == "act" for o in e.out):
                out["nontrivial"] += 1
            w = sched.compare(e, post, log)
            if w is None:
                if e.prop.get(prop):
                    v = core_check._viol(prop, e.prop[prop], engine, b, steps, e.out, "edge", post, e.frm)
                    out["violations"].append(v)
            else:
                out["divergent"] += 1
                traces.append({"mi": e.mi, "tag": f"edge:{w}",
                               "steps": [{"t": r[i][0]["now"], "op": steps[i]["op"], "out": r[i][1], "svcs": r[i][0]["svcs"], "timers": r[i][0]["timers"], "queue": r[i][0]["queue"],
                                          "config": r[i][0]["config"], "status": r[i][0]["status"]} for i in range(len(r))]})
                tctx.append((b, steps, r, len(steps)))
                # The engine keeps a timer / service alive that the model has already released: the model offers no
                # driver step for it, so the observed run is continued on the engine alone (let it expire / complete,
                # let the suspended macrostep resume) and the whole continuation is judged by the Prop layer.
                if w in ("state.svcs", "state.timers") and args.get("extend", True):
                    extra_s = [x for x in post["svcs"] if x not in e.to["svcs"]]
                    extra_t = [x for x in post["timers"] if x not in e.to["timers"]]
                    ext = []
                    if extra_s and engine == "async":
                        ext = [{"op": "resolve", "ev": extra_s[0][1], "gv": e.step.get("gv") or {}}]
                    if extra_s or extra_t:
                        ext += [{"op": "advance", "ev": "", "gv": e.step.get("gv") or {}} for _ in range(3)]
                        steps2 = steps + ext
                        r2 = run_steps(b, steps2)
                        traces.append({"mi": e.mi, "tag": f"extension:{w}",
                                       "steps": [{"t": r2[i][0]["now"], "op": steps2[i]["op"], "out": r2[i][1], "svcs": r2[i][0]["svcs"],
                                                  "timers": r2[i][0]["timers"], "queue": r2[i][0]["queue"], "config": r2[i][0]["config"],
                                                  "status": r2[i][0]["status"]} for i in range(len(r2))]})
                        tctx.append((b, steps2, r2, len(steps)))
                        out["extended"] = out.get("extended", 0) + 1
        if edges:
            e0 = next((e for e in edges if e.step["op"] == "advance" and any(o[0] == "on_transition" for o in e.out)), edges[0])
            out["samples"].append({"machine": built[e0.mi - 1].spec.label, "from": e0.frm, "step": e0.step, "to": e0.to})
        if traces:
            os.makedirs(os.path.join(wd, "tr"), exist_ok=True)
            tla.write_batch(os.path.join(wd, "tr", "Batch.tla"), [b.defn for b in built])
            with open(os.path.join(wd, "tr", "traces.ndjson"), "w") as f:
                for t in traces:
                    f.write(json.dumps(t) + "\n")
            cfg = ("SPECIFICATION TSpec\nCONSTANTS\n  EngineS = \"" + engine + "\"\n  MaxNow = 0\n  WaitSteps = {}\n  MaxDepth = 0\n  PropSetS = {}\n"
                   "ACTION_CONSTRAINT TEmit\nCHECK_DEADLOCK FALSE\n")
            vres = tla.run_tlc("TraceSched", cfg, os.path.join(wd, "tr"), workers=2)
            for v in vres.json_lines:
                out["trace_steps"] += 1
                if v.get(prop):
                    b, steps, r, base = tctx[v["ti"] - 1]
                    if v["l"] >= base:        # the step under test or its continuation (the path was judged by its own edges)
                        li = v["l"] - 1
                        out["violations"].append(core_check._viol(prop, sorted(v[prop]), engine, b, steps[:v["l"]], r[li][1],
                                                                  "trace", r[li][0], r[li - 1][0] if li > 0 else None))
            if vres.returncode != 0 or not vres.json_lines:
                out["errors"].append("trace validation failed: " + "; ".join(vres.errors[:3]))
    except Exception:
        import traceback
        out["errors"].append("unit failed: " + traceback.format_exc().splitlines()[-1] + " @ " + traceback.format_exc().splitlines()[-3].strip())
    finally:
        tla.rm(wd)
    return out


RULES = {
    "C09": ("family V: one invocation with/without onError, two invocations on one state, invocation beside an after timer, "
            "invocations on a parent and its child, onDone that re-enters the invoking state; services are driver-controlled "
            "futures resolved or rejected at any driver step relative to sends, waits, slow (100 ms) actions, re-entry and stop; "
            "TLC explores driver steps up to the depth and horizon of this run; every edge replayed under virtual time"),
}


def run(prop: str, tier: str, seed: int) -> int:
    t0 = time.time()
    q = tier == "quick"
    if prop == "C09":
        specs = gen.family_V(seed, 12 if q else 50)
    elif prop == "C04":
        specs = gen.family_X(seed, 9 if q else 30, race=True) + gen.family_V(seed + 1, 6 if q else 20)
    elif prop == "C14":
        specs = gen.family_X(seed, 7 if q else 24) + gen.family_V(seed + 1, 6 if q else 20)
    else:
        specs = gen.family_X(seed, 14 if q else 40)
    units = [{"specs": [sp], "maxnow": 200 if q else 320, "waits": (30,) if q else (20, 45), "depth": 7 if q else 8,
              "tlc_workers": 2, "prop": prop} for sp in specs]
    if prop == "C09":
        # the sync engine calls a (plain callable) service at the invocation and queues its outcome at once
        for sp in [x for x in gen.family_V(seed + 7, 10 if q else 30) if "plain" in x.label]:
            sp2 = gen.Spec(sched.strip_slow(sp.config), sp.family, sp.label + "-sync")
            for attr in ("services", "events", "missing"):
                if hasattr(sp, attr):
                    setattr(sp2, attr, getattr(sp, attr))
            sp2.events = [e for e in (sp2.events or []) if e != "SLOW"]
            units.append({"specs": [sp2], "maxnow": 200 if q else 320, "waits": (30,) if q else (20, 45), "depth": 7 if q else 8,
                          "tlc_workers": 2, "prop": prop, "engine": "sync"})
    if prop in ("C08", "C14"):
        # the sync engine's timer threads under virtual time (harness/vthreads.py); no coroutine actions, no services
        for sp in gen.family_X(seed + 7, 8 if q else 24):
            sp2 = gen.Spec(sched.strip_slow(sp.config), sp.family, sp.label + "-sync")
            for attr in ("delays", "events", "missing"):
                if hasattr(sp, attr):
                    setattr(sp2, attr, getattr(sp, attr))
            sp2.events = [e for e in (sp2.events or []) if e != "SLOW"]
            units.append({"specs": [sp2], "maxnow": 200 if q else 320, "waits": (30,) if q else (20, 45), "depth": 7 if q else 8,
                          "tlc_workers": 2, "prop": prop, "engine": "sync"})
    if NPROC > 1:
        import concurrent.futures as cf

        with cf.ProcessPoolExecutor(max_workers=NPROC) as ex:
            results = budget_map(ex, unit, units)
    else:
        results = [unit(u) for u in units]
    cov: Dict[str, Any] = {"states": 0, "transitions": 0, "edges_replayed": 0, "divergent_edges": 0, "machines": 0,
                           "trace_steps_validated": 0, "samples": []}
    violations, errors, nontrivial = [], [], 0
    for r in results:
        violations += r["violations"]
        errors += r["errors"]
        cov["states"] += r["states"]
        cov["transitions"] += r["transitions"]
        cov["edges_replayed"] += r["replayed"]
        cov["divergent_edges"] += r["divergent"]
        cov["machines"] += r["n_machines"]
        cov["trace_steps_validated"] += r["trace_steps"]
        nontrivial += r["nontrivial"]
        if len(cov["samples"]) < 3:
            cov["samples"] += r["samples"]
    cov["traces_validated_against_impl"] = cov["edges_replayed"]
    cov["evaluations"] = cov["edges_replayed"]
    cov["distinct_nontrivial"] = nontrivial
    cov["exhaustive"] = False
    cov["divergences"] = cov["divergent_edges"]
    cov["rule"] = RULES.get(prop) or ("family X: one/two timers per state (equal and different delays, guarded candidate lists under one delay), periodic "
                   "re-entering after, named delays, nested owner + child timers, timers in parallel regions; events RE (re-enter), GO/BACK "
                   "(leave/return), SLOW (100 ms suspending action), IN; driver steps start/send/wait/advance/stop explored by TLC up to the "
                   "depth and horizon in this run; every edge replayed under virtual time")
    if cov["divergences"]:
        print(f"DIVERGENCE property={prop}: {cov['divergent_edges']} edges where the code disagrees with the scheduling model")
    if not cov["samples"]:
        cov["samples"] = [{"note": "no sample"}]
    return report.finalize(prop, tier, seed, t0, violations=violations, coverage=cov, assumptions=ASSUMPTIONS, errors=errors)


def _service_names(cfg) -> set:
    out = set()

    def walk(n):
        inv = n.get("invoke")
        for i in (inv if isinstance(inv, list) else [inv] if inv else []):
            if isinstance(i, dict) and i.get("src"):
                out.add(i["src"])
        for c in (n.get("states") or {}).values():
            walk(c)

    walk(cfg)
    return out


def replay(prop: str, path: str) -> int:
    with open(path) as f:
        rec = json.load(f)
    spec = gen.Spec(rec["config"], rec.get("family", "replay"), rec.get("label", "replay"))
    spec.delays = {k: v for k, v in (rec.get("delays") or {}).items()}
    spec.services = {k: "driver" for k in _service_names(rec["config"])}
    b = pipeline.Built(spec)
    r = sched.run_sched(b, rec["steps"])
    for (post, log), st in zip(r, rec["steps"]):
        print(st["op"], st.get("ev", ""), "->", post["config"], "t=", post["now"], [o[:3] for o in sched.visible(log)])
    print("re-run ./check C08 for the TLC verdict on this schedule")
    return 0


def selftest(prop: str, seed: int) -> int:
    return 0
