"""C12: snapshots are faithful, isolated resume points.

(a)-(d) spec -> code over every TLC edge (s, step, s') of the core model: reach s on a real
interpreter, take get_snapshot(), check it is valid JSON, restore it into a fresh interpreter with
from_snapshot() (+ start() on the async engine), perform `step` on BOTH the original and the
restored interpreter and compare both with s' and with each other (configuration, history, context,
status, output, ordered action list); re-snapshot the restored interpreter (must reproduce the
snapshot); re-read the dict taken before the step after the original has moved on (must be
unchanged).  Crash point quantifier = every reachable state of the model.
(f) spec/SnapCases.tla enumerates every single-point corruption of a snapshot together with the
verdict the property demands; each case is applied to the real from_snapshot().
"""
from __future__ import annotations

import asyncio
import copy
import json
import os
import time
from typing import Any, Dict, List

from .. import core_check, gen, pipeline, report, tla
from ..core_check import budget_map
from .. import replay as rp
from .. import rt
from ..pipeline import state_key
from .core import NPROC, _size

ASSUMPTIONS = [
    "TLC explores the quiescent-state model (spec/MCCore.tla); crash/resume points are exactly its reachable states",
    "pending timers and in-flight services are excepted by the property and absent from these families",
    "child actors: the reachable states of the actor model (SCActors.tla) with live children are snapshotted, restored and continued on the asyncio engine (actor tree, system registry, re-snapshot, receptions); pending delayed sends are excepted by the property",
    "corruption cases are single-point (one field replaced / removed), enumerated by spec/SnapCases.tla",
]


def _acts(log):
    return [(o[1], o[2]) for o in log if o[0] == "act"]


def _do(interp, st, ctl, is_async=False):
    if st["op"] == "send":
        return interp.send(st["ev"])
    if st["op"] == "batch":
        return interp.send_events(list(st["evs"]))
    return None


def check_edge_sync(b, steps) -> List[str]:
    """Returns failing clause tags for one (path, step) on the sync engine."""
    bad: List[str] = []
    b.ctl.reset()
    rt.CURRENT["ctl"] = b.ctl
    orig = rt.attach(rt.TracedSync(b.machine, b.ctl), b.ctl, rp.out_tag)
    b.ctl.fuel = b.defn["fuel"]
    try:
        for st in steps[:-1]:
            b.ctl.gv = dict(st["gv"])
            b.ctl.events = 0
            if st["op"] == "start":
                orig.start()
            else:
                _do(orig, st, b.ctl)
    except (Exception, rt.Diverged):
        return []   # the path itself failed: not a quiescent resume point
    # a nested, mutable context value that some later action updates IN PLACE (no modelled action touches it)
    if isinstance(orig.context, dict):
        orig.context["__nest__"] = {"l": [0], "d": {"x": 1}}
    snap = orig.get_snapshot()
    try:
        parsed = json.loads(snap)
    except Exception:
        return ["not_json"]
    persisted = orig.get_persisted_snapshot()
    frozen = copy.deepcopy(persisted)
    if isinstance(orig.context, dict) and isinstance(orig.context.get("__nest__"), dict):
        orig.context["__nest__"]["l"].append(1)          # later execution, in place
        orig.context["__nest__"]["d"]["y"] = 2
    ctl2 = rt.Ctl()
    try:
        restored = rt.TracedSync.from_snapshot(snap, b.machine)
    except Exception as ex:
        return [f"restore_raised:{type(ex).__name__}"]
    restored._ctl = ctl2
    ctl2.tnames = b.ctl.tnames
    rt.attach(restored, ctl2, rp.out_tag)
    if restored.get_persisted_snapshot() != persisted:
        bad.append("resnapshot_differs")
    pv = lambda i: (rt.project(i, b.ctx_keys), rp.out_tag(i.output), i.error is not None)
    if pv(restored) != pv(orig):
        bad.append("persist_view_differs")
    st = steps[-1]
    b.ctl.gv = dict(st["gv"])
    b.ctl.log, ctl2.log = [], []
    b.ctl.events = ctl2.events = 0
    e1 = e2 = None
    try:
        if st["op"] == "start":
            orig.start()
        else:
            _do(orig, st, b.ctl)
    except (Exception, rt.Diverged) as ex:
        e1 = type(ex).__name__
    log1 = b.ctl.take()
    # the guard valuation is shared through the machine's logic closures (same Ctl.gv)
    rt.CURRENT["ctl"] = ctl2
    try:
        if st["op"] == "start":
            restored.start()
        else:
            _do(restored, st, ctl2)
    except (Exception, rt.Diverged) as ex:
        e2 = type(ex).__name__
    # marker actions log through the machine's Ctl (b.ctl): they landed in b.ctl.log
    log2 = b.ctl.take()
    rt.CURRENT["ctl"] = b.ctl
    if e1 != e2:
        bad.append("continuation_error_differs")
    if pv(restored) != pv(orig):
        bad.append("continuation_state_differs")
    if _acts(log1) != _acts(log2):
        bad.append("continuation_actions_differ")
    if persisted != frozen:
        bad.append("earlier_snapshot_mutated")
    try:
        orig.stop()
        restored.stop()
    except Exception:
        pass
    return bad


async def _check_edge_async(b, steps) -> List[str]:
    bad: List[str] = []
    b.ctl.reset()
    rt.CURRENT["ctl"] = b.ctl
    orig = rt.attach(rt.TracedAsync(b.machine, b.ctl), b.ctl, rp.out_tag)
    b.ctl.fuel = b.defn["fuel"]

    async def do(interp, st):
        if st["op"] == "start":
            await interp.start()
        elif st["op"] == "send":
            await interp.send(st["ev"])
        elif st["op"] == "batch":
            await interp.send_events(list(st["evs"]))
        await rp._quiesce(interp)

    try:
        for st in steps[:-1]:
            b.ctl.gv = dict(st["gv"])
            b.ctl.events = 0
            await do(orig, st)
    except Exception:
        await orig.stop()
        return []
    t = orig._event_loop_task
    if t is not None and t.done() and not t.cancelled() and t.exception() is not None:
        return []
    # a nested, mutable context value that some later action updates IN PLACE (no modelled action touches it)
    if isinstance(orig.context, dict):
        orig.context["__nest__"] = {"l": [0], "d": {"x": 1}}
    snap = orig.get_snapshot()
    try:
        json.loads(snap)
    except Exception:
        return ["not_json"]
    persisted = orig.get_persisted_snapshot()
    frozen = copy.deepcopy(persisted)
    if isinstance(orig.context, dict) and isinstance(orig.context.get("__nest__"), dict):
        orig.context["__nest__"]["l"].append(1)          # later execution, in place
        orig.context["__nest__"]["d"]["y"] = 2
    try:
        restored = rt.TracedAsync.from_snapshot(snap, b.machine)
    except Exception as ex:
        await orig.stop()
        return [f"restore_raised:{type(ex).__name__}"]
    restored._ctl = rt._NullCtl()
    try:
        await restored.start()      # documented way to resume a restored actor
    except Exception as ex:
        bad.append(f"resume_raised:{type(ex).__name__}")
    if restored.get_persisted_snapshot() != persisted:
        bad.append("resnapshot_differs")
    pv = lambda i: (rt.project(i, b.ctx_keys), rp.out_tag(i.output), i.error is not None)
    if pv(restored) != pv(orig):
        bad.append("persist_view_differs")
    st = steps[-1]
    b.ctl.gv = dict(st["gv"])
    b.ctl.log = []
    b.ctl.events = 0
    await do(orig, st)
    log1 = b.ctl.take()
    b.ctl.events = 0
    await do(restored, st)
    log2 = b.ctl.take()
    if pv(restored) != pv(orig):
        bad.append("continuation_state_differs")
    if _acts(log1) != _acts(log2):
        bad.append("continuation_actions_differ")
    if persisted != frozen:
        bad.append("earlier_snapshot_mutated")
    for i in (orig, restored):
        try:
            await i.stop()
        except Exception:
            pass
    return bad


def check_edge_async(b, steps) -> List[str]:
    loop = asyncio.new_event_loop()
    try:
        return loop.run_until_complete(_check_edge_async(b, steps))
    finally:
        loop.close()


def unit(args: dict) -> dict:
    specs, engine = args["specs"], args["engine"]
    wd = tla.scratch_dir("verif-c12-")
    out: Dict[str, Any] = {"states": 0, "transitions": 0, "edges": 0, "checked": 0, "violations": [], "errors": [],
                           "exhaustive": True, "nontrivial": 0, "samples": [], "n_machines": len(specs), "engine": engine}
    try:
        built = pipeline.build_all(specs)
        res, edges = pipeline.model_check(built, os.path.join(wd, "mc"), engine=engine, gvals=("T", "F"),
                                          workers=args.get("tlc_workers", 2), props=("C01",),
                                          max_states=args.get("max_states", 10 ** 8))
        out["states"], out["transitions"], out["edges"] = res.distinct_states, res.states_generated, len(edges)
        if not res.finished or res.returncode != 0:
            out["exhaustive"] = False
            out["errors"].append(f"TLC rc={res.returncode} " + "; ".join(res.errors[:3]))
        if res.distinct_states >= args.get("max_states", 10 ** 8):
            out["exhaustive"] = False
        paths = rp.bfs_paths(edges)
        fn = check_edge_sync if engine == "sync" else check_edge_async
        for e in edges:
            k = state_key(e.mi, e.frm)
            if k not in paths or e.step["op"] not in ("send", "batch") or e.to["err"]:
                continue
            if e.frm == e.to and not any(o[0] == "act" for o in e.out):
                continue        # nothing to continue with; the resume point itself is covered by its other edges
            b = built[e.mi - 1]
            steps = [p.step for p in paths[k]] + [e.step]
            bad = fn(b, steps)
            out["checked"] += 1
            if e.frm["config"] != e.to["config"]:
                out["nontrivial"] += 1
            if bad:
                out["violations"].append(core_check._viol("C12", bad, engine, b, steps, e.out, "edge", e.to, e.frm))
            if not out["samples"]:
                out["samples"].append({"machine": b.spec.label, "resume_point": e.frm["config"], "hist": e.frm["hist"],
                                       "continuation": e.step, "to": e.to["config"]})
    except Exception:
        import traceback
        out["errors"].append("unit failed: " + traceback.format_exc().splitlines()[-1] + " @ " + traceback.format_exc().splitlines()[-3].strip())
    finally:
        tla.rm(wd)
    return out


# ---------------------------------------------------------------------------------------
# (f) corruption cases

VALUES = {"null": None, "bool": True, "number": 7, "string": "zzz", "list": [], "object": {}}


def corruption_cases() -> List[dict]:
    wd = tla.scratch_dir("verif-c12f-")
    try:
        res = tla.run_tlc("SnapCases", "SPECIFICATION Spec\nCHECK_DEADLOCK FALSE\n", wd, workers=1, cont=False)
        return list(res.json_lines), res
    finally:
        tla.rm(wd)


def apply_corruption(snap: dict, field: str, kind: str):
    if field == "<whole>":
        if kind == "garbage_json":
            return "{not json"
        return json.dumps(VALUES[kind])
    s = copy.deepcopy(snap)
    if kind == "missing":
        s.pop(field, None)
    elif kind == "unknown_id":
        if field == "history":
            s["history"] = {next(iter(s["history"]), "m"): ["m.__no_such_state__"]} if True else s["history"]
        else:
            s[field] = list(s[field]) + ["m.__no_such_state__"]
    else:
        s[field] = VALUES[kind]
    return json.dumps(s)


def run_corruptions(seed: int):
    from xstate_statemachine.exceptions import XStateMachineError

    cases, res = corruption_cases()
    spec = gen.family_H(seed, 1)[0]
    b = pipeline.Built(spec)
    interp = rt.TracedSync(b.machine, b.ctl)
    interp.start()
    evs = sorted(b.defn["events"])
    for ev in evs[:12]:
        interp.send(ev)
    base = interp.get_persisted_snapshot()
    violations, n = [], 0
    for c in cases:
        for cls_name, cls in (("sync", rt.TracedSync), ("async", rt.TracedAsync)):
            n += 1
            text = apply_corruption(base, c["field"], c["kind"])
            verdict, detail = "accept", ""
            try:
                cls.from_snapshot(text, b.machine)
            except XStateMachineError as ex:
                verdict, detail = "reject", type(ex).__name__
            except Exception as ex:
                verdict, detail = "raw", type(ex).__name__
            ok = verdict == c["expected"]
            if not ok:
                v = core_check._viol("C12", [f"corrupt:{c['field']}:{c['kind']}:expected_{c['expected']}:got_{verdict}:{detail}"],
                                     cls_name, b, [], [], "corruption", {}, None)
                v["corruption"] = {"field": c["field"], "kind": c["kind"], "expected": c["expected"], "got": verdict, "detail": detail}
                violations.append(v)
    return violations, n, len(cases), res


def families(tier: str, seed: int) -> List[gen.Spec]:
    q = tier == "quick"
    return (gen.family_H(seed, 4 if q else 16)
            + gen.family_T_random(seed + 1, 8 if q else 40, min_states=3, max_states=6)
            + gen.family_D(seed + 2, 3 if q else 16)
            + gen.family_R(seed + 3, 8 if q else 40))


ACTOR_CONTS = ["ST_a1_X", "ST_s1_Y", "ST_sg_X", "ST_a1_GST", "ST_w_X", "ST_a1_PING", "SC_a1", "stop"]


def actor_snapshot_chunk(args: dict) -> dict:
    from .. import actors
    out = {"paths": 0, "bad": []}
    for steps in args["paths"]:
        out["paths"] += 1
        for b in actors.snapshot_leg([{"op": s} for s in steps], ACTOR_CONTS):
            out["bad"].append({"steps": steps, **b})
    return out


def actor_snapshot_leg(tier: str, seed: int):
    """Resume points with LIVE CHILD ACTORS: the reachable states of the actor model (spec/SCActors.tla, TLC) in which
    the root has children; each is snapshotted on the real engine, restored, and compared (actor tree, re-snapshot,
    continuations) - see harness/actors.snapshot_leg."""
    import random
    from collections import deque
    from .. import actors
    q = tier == "quick"
    wd = tla.scratch_dir("verif-c12a-")
    viols, errs = [], []
    cov = {"actor_resume_points": 0, "actor_model_states": 0}
    try:
        ops = [o for o in actors.OPS if o["name"] in ("SP_w", "SP_w_a1", "SP_w_a2_s1", "SP_v_s1", "ST_a1_GSP", "ST_a1_FIN", "ST_a1_X", "SC_a1")]
        edges, stats, e2, rc, _w = actors.model_check(os.path.join(wd, "mc"), ops, 4 if q else 5, 5, workers=6)
        if rc != 0 or e2:
            errs.append(f"TLC (actor model for snapshots) rc={rc} " + "; ".join(e2[:2]))
        cov["actor_model_states"] = stats[1]
        key = lambda s: json.dumps(s, sort_keys=True)
        succ: Dict[str, list] = {}
        for e in edges:
            succ.setdefault(key(e["from"]), []).append(e)
        inits = [e["from"] for e in edges if e["from"]["rec"] == {} and e["from"]["alive"] == ["m"]]
        paths: Dict[str, list] = {}
        if inits:
            k0 = key(inits[0])
            paths[k0] = []
            dq = deque([k0])
            while dq:
                k = dq.popleft()
                for e in succ.get(k, []):
                    k2 = key(e["to"])
                    if k2 not in paths:
                        paths[k2] = paths[k] + [e["step"].get("name", e["step"]["op"])]
                        dq.append(k2)
        states = {key(e["to"]): e["to"] for e in edges}
        cands = sorted(p for k, p in paths.items() if k in states and len(states[k]["alive"]) + len(states[k].get("fin") or []) >= 2
                       and not any(x in ("stop",) for x in p))
        rng = random.Random(seed)
        rng.shuffle(cands)
        cands = cands[: (40 if q else 400)]
        chunks = [cands[i::NPROC] for i in range(NPROC)]
        import concurrent.futures as cf
        with cf.ProcessPoolExecutor(max_workers=NPROC) as ex:
            results = budget_map(ex, actor_snapshot_chunk, [{"paths": c} for c in chunks if c])
        dummy = pipeline.Built(gen.Spec({"id": "m", "initial": "s", "states": {"s": {}}}, "actors", "actor-driver"))
        for r in results:
            cov["actor_resume_points"] += r["paths"]
            for b in r["bad"]:
                steps = [{"op": s, "ev": "", "gv": {}} for s in b["steps"]] + ([{"op": b["cont"], "ev": "", "gv": {}}] if b["cont"] else [])
                viols.append(core_check._viol("C12", ["actors:" + b["clause"]], "async", dummy, steps, [], "actor-snapshot",
                                              {"original": b["original"], "restored": b["restored"]}))
    except Exception:
        import traceback
        errs.append("actor snapshot leg failed: " + traceback.format_exc().splitlines()[-1])
    finally:
        tla.rm(wd)
    return cov, viols, errs


def run(prop: str, tier: str, seed: int) -> int:
    t0 = time.time()
    q = tier == "quick"
    specs = sorted(families(tier, seed), key=_size, reverse=True)
    groups, small = [], []
    for sp in specs:
        if _size(sp) >= 400:
            groups.append([sp])
        else:
            small.append(sp)
            if len(small) == 4:
                groups.append(small)
                small = []
    if small:
        groups.append(small)
    units = [{"specs": g, "engine": eng, "tlc_workers": 2, "max_states": 120 if q else 600}
             for g in groups for eng in ("sync", "async")]
    if NPROC > 1 and len(units) > 1:
        import concurrent.futures as cf

        with cf.ProcessPoolExecutor(max_workers=NPROC) as ex:
            results = budget_map(ex, unit, units)
    else:
        results = [unit(u) for u in units]
    cviol, ncorr, ncases, cres = run_corruptions(seed)
    cov: Dict[str, Any] = {"states": 0, "transitions": 0, "resume_points_x_continuations": 0, "machines": 0,
                           "corruption_cases": ncases, "corruption_runs": ncorr, "samples": []}
    violations, errors, exhaustive, nontrivial = list(cviol), [], True, 0
    for r in results:
        violations += r["violations"]
        errors += r["errors"]
        cov["states"] += r["states"]
        cov["transitions"] += r["transitions"]
        cov["resume_points_x_continuations"] += r["checked"]
        cov["machines"] += r["n_machines"]
        nontrivial += r["nontrivial"]
        exhaustive = exhaustive and r["exhaustive"]
        if len(cov["samples"]) < 3:
            cov["samples"] += r["samples"]
    acov, aviol, aerr = actor_snapshot_leg(tier, seed)
    cov.update(acov)
    violations += aviol
    errors += aerr
    if ncases == 0:
        errors.append("SnapCases produced no cases: " + "; ".join(cres.errors[:2]))
    cov["traces_validated_against_impl"] = cov["resume_points_x_continuations"] + ncorr
    cov["evaluations"] = cov["traces_validated_against_impl"]
    cov["distinct_nontrivial"] = nontrivial + ncases
    cov["exhaustive"] = exhaustive
    cov["rule"] = ("families H/T/D/R; every reachable quiescent state of the TLC model is a crash/resume point and every "
                   "state-changing or action-running edge out of it a continuation; snapshot -> from_snapshot -> same step on "
                   "original and restored; plus every single-point snapshot corruption enumerated by SnapCases.tla on both engines")
    if not cov["samples"]:
        cov["samples"] = [{"note": "no sample"}]
    return report.finalize(prop, tier, seed, t0, violations=violations, coverage=cov, assumptions=ASSUMPTIONS, errors=errors)


def replay(prop: str, path: str) -> int:
    with open(path) as f:
        rec = json.load(f)
    spec = gen.Spec(rec["config"], rec.get("family", "replay"), rec.get("label", "replay"))
    spec.missing = rec.get("missing") or []
    b = pipeline.Built(spec)
    if not rec["steps"]:
        print("corruption case: rerun ./check C12 --tier quick")
        return 0
    bad = (check_edge_sync if rec["engine"] == "sync" else check_edge_async)(b, rec["steps"])
    print("failing clauses:", bad)
    if bad:
        print(f"VIOLATION property={prop} replay={path}")
        return 1
    return 0


def selftest(prop: str, seed: int) -> int:
    return 0
