"""C14: lifecycle is a strict state machine; stop() releases everything.

Two model layers, both bound by edge replay:
  * core (spec/MCCore.tla, WithLifecycle): from every reachable quiescent state of families T/R/D, on
    both interpreters, stop(), a repeated start() and send() after done/error/stopped are explored next
    to the ordinary steps; Prop C14 (spec/SCProps.tla) checks the status transition relation,
    idempotence, refusal to restart, and that sends after the end change and run nothing;
  * scheduling (spec/SCSched.tla): stop() at every driver step of the timer/service families X and V
    (mid slow action, with expiries or results queued, after done/error), followed by waits and
    deadlines: timers, services and the busy consumer are gone and nothing is delivered afterwards.
"""
from __future__ import annotations

import time
from typing import Any, Dict, List

from .. import core_check, gen, report
from ..core_check import budget_collect
from . import c08
from .core import NPROC, _size

ASSUMPTIONS = [
    "sync engine timer/delayed-send threads are not driven (async engine only on the scheduling layer)",
    "from_snapshot + start() resumption is covered by the C12 check",
] + c08.ASSUMPTIONS[1:]


def _core_unit(a):
    return core_check.unit(a)


def _sched_unit(a):
    return c08.unit(a)


def _kind_unit(ka):
    k, a = ka
    return (k, (_core_unit if k == "core" else _sched_unit)(a))


def run(prop: str, tier: str, seed: int) -> int:
    t0 = time.time()
    q = tier == "quick"
    core_specs = (gen.family_T_random(seed, 8 if q else 37, min_states=3, max_states=5)
                  + gen.family_R(seed + 1, 8 if q else 37) + gen.family_D(seed + 2, 3 if q else 20))
    units: List[tuple] = []
    groups, small = [], []
    for sp in sorted(core_specs, key=_size, reverse=True):
        if _size(sp) >= 400:
            groups.append([sp])
        else:
            small.append(sp)
            if len(small) == 4:
                groups.append(small)
                small = []
    if small:
        groups.append(small)
    for g in groups:
        for eng in ("sync", "async"):
            units.append(("core", {"specs": g, "engine": eng, "props": [prop], "seed": seed, "gvals": ("T", "F"), "mc": True,
                                   "tlc_workers": 2, "walks": (0, 0), "max_states": 120 if q else 600,
                                   "with_lifecycle": True}))
    sspecs = gen.family_X(seed, 7 if q else 20) + gen.family_V(seed + 1, 6 if q else 20)
    for sp in sspecs:
        units.append(("sched", {"specs": [sp], "maxnow": 200 if q else 320, "waits": (30,) if q else (20, 45),
                                "depth": 6 if q else 8, "tlc_workers": 2, "prop": prop}))
    import concurrent.futures as cf

    with cf.ProcessPoolExecutor(max_workers=NPROC) as ex:
        futs = [ex.submit(_kind_unit, ka) for ka in units]
        results = budget_collect(futs)
    cov: Dict[str, Any] = {"states": 0, "transitions": 0, "core_edges_replayed": 0, "sched_edges_replayed": 0,
                           "divergences": 0, "machines": 0, "samples": []}
    violations, errors, nontrivial = [], [], 0
    for kind, r in results:
        violations += r["violations"]
        errors += r["errors"]
        cov["states"] += r["states"]
        cov["transitions"] += r["transitions"]
        cov["machines"] += r["n_machines"]
        nontrivial += r["nontrivial"]
        if kind == "core":
            cov["core_edges_replayed"] += r["replayed"]
            cov["divergences"] += r["divergent_edges"] + r["trace_divergent"]
        else:
            cov["sched_edges_replayed"] += r["replayed"]
            cov["divergences"] += r["divergent"]
        if len(cov["samples"]) < 3:
            cov["samples"] += r["samples"][:1]
    cov["traces_validated_against_impl"] = cov["core_edges_replayed"] + cov["sched_edges_replayed"]
    cov["evaluations"] = cov["traces_validated_against_impl"]
    cov["distinct_nontrivial"] = nontrivial
    cov["exhaustive"] = False
    cov["rule"] = ("core: families T/R/D, every reachable state x {ordinary steps, stop(), repeated start(), send after "
                   "done/error/stopped} on both interpreters; scheduling: families X (timers, slow actions) and V (services) with "
                   "stop() at every driver step followed by waits/deadlines/sends; every edge replayed")
    if cov["divergences"]:
        print(f"DIVERGENCE property={prop}: {cov['divergences']} edges where the code disagrees with the model")
    if not cov["samples"]:
        cov["samples"] = [{"note": "no sample"}]
    return report.finalize(prop, tier, seed, t0, violations=violations, coverage=cov, assumptions=ASSUMPTIONS, errors=errors)


def replay(prop: str, path: str) -> int:
    from . import core

    return core.replay(prop, path)


def selftest(prop: str, seed: int) -> int:
    return 0
