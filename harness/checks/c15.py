"""C15: actor messaging and supervision.

spec/SCActors.tla models the actor layer of the async engine (spawnChild with explicit / automatic ids
and systemIds incl. re-use, target resolution order system registry -> id segment -> recorded service key
-> parent, sendTo / forwardTo / sendParent / escalate, delayed sends with ids and cancel, stopChild, stop(),
a grandchild level) for a fixed driver machine whose events each run one built-in action.  TLC explores
all operation sequences up to a depth (plus random deeper behaviours in simulation mode) and evaluates
Prop C15 on every step; every explored step sequence is executed on the real engine under the
virtual-time loop and the complete abstract state - running actors, children maps, system registry,
per-actor received events in order, pending delayed sends - is compared after each step.
"""
from __future__ import annotations

import json
import os
import time
from collections import deque
from typing import Any, Dict, List

from .. import actors, core_check, gen, pipeline, report, tla
from ..core_check import budget_map
from .core import NPROC

ASSUMPTIONS = [
    "async engine (children run on the same virtual-time loop); the sync engine's thread-backed children are not driven",
    "fixed driver / child templates: children record what they process and react to PING, ESC, GSP, GST; payload contents are not examined",
    "auto-generated ids are canonicalised by creation order",
]

FIELDS = ("alive", "fin", "orphans", "kids", "sys", "rec", "pend")


def replay_chunk(args):
    paths = args["paths"]
    out = {"replayed": 0, "bad": [], "steps": 0}
    for steps, want in paths:
        r = actors.run_ops([{"op": s} for s in steps])
        post = r[-1]
        out["replayed"] += 1
        out["steps"] += len(steps)
        diff = [f for f in FIELDS if post.get(f) != want.get(f)]
        if diff:
            out["bad"].append({"steps": steps, "diff": diff, "want": {f: want[f] for f in diff}, "got": {f: post[f] for f in diff}})
    return out


def replay_walks(args):
    """Whole walks through the TLC graph: every step of the walk is compared (the engine's hidden state -
    tasks being torn down, superseded registrations - depends on the whole history, not on the abstract state)."""
    out = {"replayed": 0, "bad": [], "steps": 0}
    for steps, wants in args["walks"]:
        r = actors.run_ops([{"op": s} for s in steps])
        out["replayed"] += 1
        out["steps"] += len(steps)
        for i, (post, want) in enumerate(zip(r, wants)):
            diff = [f for f in FIELDS if post.get(f) != want.get(f)]
            if diff:
                out["bad"].append({"steps": steps[:i + 1], "diff": diff, "want": {f: want[f] for f in diff},
                                   "got": {f: post[f] for f in diff}})
                break
    return out


def _dummy():
    sp = gen.Spec({"id": "m", "initial": "s", "states": {"s": {}}}, "actors", "actor-driver")
    return pipeline.Built(sp)


def run(prop: str, tier: str, seed: int) -> int:
    t0 = time.time()
    q = tier == "quick"
    wd = tla.scratch_dir("verif-c15-")
    violations, errors = [], []
    cov: Dict[str, Any] = {}
    try:
        edges, stats, errs, rc, wall = actors.model_check(os.path.join(wd, "mc"), actors.OPS, 4 if q else 5, 5, workers=8)
        if rc != 0 or errs:
            errors.append(f"TLC rc={rc} " + "; ".join(errs[:3]))
        # second, deeper exploration restricted to the operations that own hidden engine state (delayed sends that
        # supersede each other, cancel, stopping the target) - histories the full table only reaches at greater depth
        focus = [o for o in actors.OPS if o["name"] in ("SP_w_a1", "SP_w_a2_s1", "CAN_i1", "SC_a1", "ST_a1_X", "ST_a1_FIN", "ST_a1_GSP") or o["name"].startswith("STD_")]
        edges2, stats2, errs2, rc2, _w2 = actors.model_check(os.path.join(wd, "mc2"), focus, 5 if q else 6, 5, workers=8)
        if rc2 != 0 or errs2:
            errors.append(f"TLC (focus) rc={rc2} " + "; ".join(errs2[:3]))
        have = {json.dumps([e["from"], e["step"], e["to"]], sort_keys=True) for e in edges}
        edges = edges + [e for e in edges2 if json.dumps([e["from"], e["step"], e["to"]], sort_keys=True) not in have]
        stats = (stats[0] + stats2[0], stats[1] + stats2[1])
        key = lambda s: json.dumps(s, sort_keys=True)
        succ: Dict[str, list] = {}
        for e in edges:
            succ.setdefault(key(e["from"]), []).append(e)
        inits = [e["from"] for e in edges if e["from"]["rec"] == {} and e["from"]["alive"] == ["m"]]
        paths = {}
        if inits:
            k0 = key(inits[0])
            paths[k0] = []
            dq = deque([k0])
            while dq:
                k = dq.popleft()
                for e in succ.get(k, []):
                    k2 = key(e["to"])
                    if k2 not in paths:
                        paths[k2] = paths[k] + [e]
                        dq.append(k2)
        else:
            errors.append("no initial state among the edges")
        jobs = []
        name = lambda e: e["step"].get("name", e["step"]["op"])
        dummy = _dummy()
        for e in edges:
            k = key(e["from"])
            if k not in paths:
                continue
            steps = [name(p) for p in paths[k]] + [name(e)]
            jobs.append((steps, e["to"]))
            if e["prop"].get("C15"):
                # the model says the ALGORITHM breaks the property here; it counts once the replay below agrees
                violations.append((steps, e))
        chunks = [jobs[i::NPROC] for i in range(NPROC)]
        # random whole walks (delayed-send and stop operations over-represented: they own the hidden state)
        import random as _random
        rng = _random.Random(seed)
        walks = []
        if inits:
            for _ in range(2500 if q else 40000):
                k, steps, wants = key(inits[0]), [], []
                for _d in range(6 if q else 8):
                    nxt = succ.get(k) or []
                    if not nxt:
                        break
                    hot = [e for e in nxt if name(e).startswith(("STD_", "CAN_", "SC_", "advance", "stop"))]
                    e = rng.choice(hot) if hot and rng.random() < 0.6 else rng.choice(nxt)
                    steps.append(name(e))
                    wants.append(e["to"])
                    k = key(e["to"])
                if steps:
                    walks.append((steps, wants))
        wchunks = [walks[i::NPROC] for i in range(NPROC)]
        import concurrent.futures as cf

        with cf.ProcessPoolExecutor(max_workers=NPROC) as ex:
            results = budget_map(ex, replay_chunk, [{"paths": c} for c in chunks if c])
            wresults = budget_map(ex, replay_walks, [{"walks": c} for c in wchunks if c])
        replayed = sum(r["replayed"] for r in results) + sum(r["steps"] for r in wresults)
        bad = [b for r in results for b in r["bad"]]
        seen_w = set()
        for r in wresults:
            for b in r["bad"]:
                if tuple(b["steps"]) not in seen_w:
                    seen_w.add(tuple(b["steps"]))
                    bad.append(b)
        badset = {tuple(b["steps"]) for b in bad}
        viols = []
        for steps, e in violations:
            if tuple(steps) in badset:
                continue        # the engine does not do what the model predicted: handled as a divergence
            v = core_check._viol("C15", e["prop"]["C15"], "async", dummy, [{"op": s, "ev": "", "gv": {}} for s in steps], [],
                                 "edge", e["to"], e["from"])
            viols.append(v)
        # divergences: the observed run is checked against the Prop by a second, observation-driven pass
        for b in bad:
            v = core_check._viol("C15", ["engine_disagrees_with_actor_model:" + ",".join(b["diff"])], "async", dummy,
                                 [{"op": s, "ev": "", "gv": {}} for s in b["steps"]], [], "divergence", b["got"], b["want"])
            viols.append(v)
        cov = {"states": stats[1], "transitions": stats[0], "traces_validated_against_impl": replayed,
               "evaluations": replayed, "distinct_nontrivial": sum(1 for e in edges if e["from"] != e["to"]),
               "divergent_edges": len(bad), "exhaustive": True, "random_walks": len(walks), "operations": [o["name"] for o in actors.OPS],
               "depth": 4 if q else 5,
               "samples": [{"steps": jobs[len(jobs) // 2][0], "to": jobs[len(jobs) // 2][1]}] if jobs else [{"note": "none"}],
               "rule": ("all sequences of the 24 driver operations (spawn with auto/explicit/re-used ids and systemIds, sendTo by id / service "
                        "key / systemId / unknown target, forwardTo, PING->sendParent, ESC->escalate, grandchild spawn and send, delayed sends "
                        "with and without ids, cancel, stopChild by id / key / systemId / unknown) interleaved with deadlines and stop(), up "
                        "to the depth in this run; every sequence executed on the real engine; non-trivial = the step changes the abstract state")}
        violations = viols
    finally:
        tla.rm(wd)
    return report.finalize(prop, tier, seed, t0, violations=violations, coverage=cov, assumptions=ASSUMPTIONS, errors=errors)


def replay(prop: str, path: str) -> int:
    with open(path) as f:
        rec = json.load(f)
    r = actors.run_ops([{"op": s["op"]} for s in rec["steps"]])
    for s, o in zip(rec["steps"], r):
        print(s["op"], "->", {k: o[k] for k in ("alive", "orphans", "sys", "pend")})
    print("recorded failing clauses:", rec["clauses"], "- re-run ./check C15 for the verdict")
    return 0


def selftest(prop: str, seed: int) -> int:
    return 0
