"""C16: behaviour is deterministic.

The Impl layer (spec/SCCore.tla) is a FUNCTION of (definition, state, step): wherever the code
iterates a set the specification fixes the order the code is supposed to produce (exit order by
(depth, id), leaves by (-depth, id), history restore by (depth, id)), so TLC's state graph has
exactly one successor per (state, step).  Determinism of the implementation is then decided by
binding: every TLC edge is executed on the real engine in k separate PROCESSES that differ in
PYTHONHASHSEED and in heap layout (a varying number of throw-away objects is allocated before the
machine is built, StateNode hashes by address), plus twice inside one process on independently
built machines; the complete recorder logs (every hook, action, witness, in order) and the
post-states are compared across the runs.  Any difference between two runs of the same edge is a
violation; agreement of all runs with the specification's unique successor is reported as well.
"""
from __future__ import annotations

import hashlib
import json
import os
import pickle
import subprocess
import sys
import time
from typing import Any, Dict, List

from .. import core_check, gen, pipeline, report, tla
from ..core_check import budget_map
from .. import replay as rp
from ..pipeline import state_key
from .core import NPROC, _size

ASSUMPTIONS = [
    "process-level nondeterminism is provoked by PYTHONHASHSEED values and heap padding only; OS-level scheduling plays no role in these timer-free families",
    "generated identifiers do not occur in these families (no actors, no timers)",
    "TLC evaluates the deterministic Impl layer correctly; the exporter is deterministic",
]


def digest(post: dict, log: list) -> str:
    return hashlib.sha1(json.dumps([post, log], sort_keys=True).encode()).hexdigest()[:16]


def worker_main(path: str) -> None:
    """Runs in a subprocess: replays the pickled edges, prints one digest per edge."""
    with open(path, "rb") as f:
        job = pickle.load(f)
    pad = [object() for _ in range(job["pad"])]  # noqa: F841  (heap layout)
    junk = {str(i): [i] for i in range(job["pad"] % 977)}  # noqa: F841
    built = pipeline.build_all(job["specs"])
    run = rp.RUNNERS[job["engine"]]
    out = []
    for mi, steps in job["runs"]:
        b = built[mi - 1]
        r = run(b, steps)
        post, log = r[-1]
        out.append(digest(post, log))
    # second, independently built copy of every machine inside the same process
    built2 = pipeline.build_all(job["specs"])
    same = 0
    for (mi, steps), d in list(zip(job["runs"], out))[:: max(1, len(out) // 200)]:
        r = run(built2[mi - 1], steps)
        if digest(*r[-1]) == d:
            same += 1
        else:
            same -= 10 ** 6
    json.dump({"digests": out, "rebuild_ok": same >= 0}, sys.stdout)


def unit(args: dict) -> dict:
    specs: List[gen.Spec] = args["specs"]
    engine = args["engine"]
    wd = tla.scratch_dir("verif-c16-")
    out: Dict[str, Any] = {"states": 0, "transitions": 0, "edges": 0, "violations": [], "errors": [], "exhaustive": True,
                           "runs": 0, "nontrivial": 0, "agree_with_spec": 0, "samples": [], "n_machines": len(specs),
                           "engine": engine}
    try:
        built = pipeline.build_all(specs)
        res, edges = pipeline.model_check(built, os.path.join(wd, "mc"), engine=engine, gvals=("T", "F"),
                                          workers=args.get("tlc_workers", 2), props=("C01",),
                                          max_states=args.get("max_states", 10 ** 8))
        out["states"], out["transitions"], out["edges"] = res.distinct_states, res.states_generated, len(edges)
        if not res.finished or res.returncode != 0:
            out["exhaustive"] = False
            out["errors"].append(f"TLC rc={res.returncode} " + "; ".join(res.errors[:3]))
        if res.distinct_states >= args.get("max_states", 10 ** 8):
            out["exhaustive"] = False
        paths = rp.bfs_paths(edges)
        runs, keep = [], []
        for e in edges:
            k = state_key(e.mi, e.frm)
            if k not in paths:
                continue
            # determinism matters where something is ordered: skip steps that run nothing
            if e.frm == e.to and not any(o[0] == "act" for o in e.out):
                continue
            runs.append((e.mi, [p.step for p in paths[k]] + [e.step]))
            keep.append(e)
        out["nontrivial"] = len(runs)
        results = []
        for i, hs in enumerate(args["hashseeds"]):
            job = {"specs": specs, "engine": engine, "runs": runs, "pad": 1000 + 7919 * i}
            jp = os.path.join(wd, f"job{i}.pkl")
            with open(jp, "wb") as f:
                pickle.dump(job, f)
            env = dict(os.environ, PYTHONHASHSEED=str(hs), PYTHONDONTWRITEBYTECODE="1")
            p = subprocess.run([sys.executable, "-c",
                                "import sys; sys.path.insert(0, %r); from harness.checks import c16; c16.worker_main(%r)"
                                % (core_check.ROOT, jp)], capture_output=True, text=True, env=env, timeout=1700)
            if p.returncode != 0:
                out["errors"].append("worker failed: " + p.stderr[-300:])
                continue
            results.append(json.loads(p.stdout))
            out["runs"] += 1
        for r in results:
            if not r["rebuild_ok"]:
                out["violations"].append({"property": "C16", "clauses": ["in_process_rebuild_differs"], "engine": engine,
                                          "label": specs[0].label, "family": specs[0].family, "config": specs[0].config,
                                          "actions": specs[0].actions, "guards": specs[0].guards, "steps": [], "out": [],
                                          "source": "rebuild", "observed_post": {}, "defn": built[0].defn})
        if len(results) >= 2:
            for idx, e in enumerate(keep):
                ds = {r["digests"][idx] for r in results}
                b = built[e.mi - 1]
                if len(ds) > 1:
                    out["violations"].append(core_check._viol("C16", ["runs_differ"], engine, b, runs[idx][1], e.out, "edge", e.to))
                elif digest(rp.norm_state(e.to), e.out if engine != "pure" else [o for o in e.out if o[0] == "rec"]) in ds:
                    out["agree_with_spec"] += 1
            if keep:
                e = keep[0]
                out["samples"].append({"machine": built[e.mi - 1].spec.label, "step": e.step,
                                       "digests": [r["digests"][0] for r in results], "hashseeds": list(args["hashseeds"])})
    except Exception:
        import traceback
        out["errors"].append("unit failed: " + traceback.format_exc().splitlines()[-1])
    finally:
        tla.rm(wd)
    return out


def families(tier: str, seed: int) -> List[gen.Spec]:
    q = tier == "quick"
    return (gen.family_H(seed, 5 if q else 30)
            + gen.family_T_random(seed + 1, 10 if q else 50, min_states=4, max_states=6)
            + gen.family_D(seed + 2, 3 if q else 20)
            + gen.family_R(seed + 3, 8 if q else 37)
            + gen.family_F(seed + 4, 5 if q else 20))


def run(prop: str, tier: str, seed: int) -> int:
    t0 = time.time()
    q = tier == "quick"
    specs = sorted(families(tier, seed), key=_size, reverse=True)
    groups, small = [], []
    for sp in specs:
        if _size(sp) >= 400:
            groups.append([sp])
        else:
            small.append(sp)
            if len(small) == 4:
                groups.append(small)
                small = []
    if small:
        groups.append(small)
    seeds = [0, 1, 31337] if q else [0, 1, 2, 3, 5, 8, 13, 31337, 424242, 7, 99, 12345]
    units = [{"specs": g, "engine": eng, "hashseeds": seeds, "tlc_workers": 2, "max_states": 120 if q else 400}
             for g in groups for eng in ("sync", "async")]
    if NPROC > 1 and len(units) > 1:
        import concurrent.futures as cf

        with cf.ProcessPoolExecutor(max_workers=NPROC) as ex:
            results = budget_map(ex, unit, units)
    else:
        results = [unit(u) for u in units]
    cov: Dict[str, Any] = {"states": 0, "transitions": 0, "edges_compared_across_runs": 0, "process_runs": 0,
                           "agree_with_spec": 0, "machines": 0, "samples": [], "hashseeds": seeds}
    violations, errors, exhaustive = [], [], True
    for r in results:
        violations += r["violations"]
        errors += r["errors"]
        cov["states"] += r["states"]
        cov["transitions"] += r["transitions"]
        cov["edges_compared_across_runs"] += r["nontrivial"]
        cov["process_runs"] += r["runs"]
        cov["agree_with_spec"] += r["agree_with_spec"]
        cov["machines"] += r["n_machines"]
        exhaustive = exhaustive and r["exhaustive"]
        if len(cov["samples"]) < 3:
            cov["samples"] += r["samples"]
    cov["traces_validated_against_impl"] = cov["edges_compared_across_runs"] * len(seeds)
    cov["evaluations"] = cov["traces_validated_against_impl"]
    cov["distinct_nontrivial"] = cov["edges_compared_across_runs"]
    cov["exhaustive"] = exhaustive
    cov["rule"] = ("families H/T/D/R/F with parallel regions, deep history, reactions and rollbacks; every TLC edge that runs at least one "
                   "action or changes the configuration is executed in k processes (PYTHONHASHSEED, heap padding) and twice in-process; "
                   "distinct = edges, each compared across all runs")
    if not cov["samples"]:
        cov["samples"] = [{"note": "no sample"}]
    return report.finalize(prop, tier, seed, t0, violations=violations, coverage=cov, assumptions=ASSUMPTIONS, errors=errors)


def replay(prop: str, path: str) -> int:
    with open(path) as f:
        rec = json.load(f)
    spec = gen.Spec(rec["config"], rec.get("family", "replay"), rec.get("label", "replay"))
    spec.missing = rec.get("missing") or []
    ds = set()
    wd = tla.scratch_dir("verif-c16r-")
    try:
        for i, hs in enumerate([0, 1, 2, 3, 31337, 99]):
            jp = os.path.join(wd, f"job{i}.pkl")
            with open(jp, "wb") as f:
                pickle.dump({"specs": [spec], "engine": rec["engine"], "runs": [(1, rec["steps"])], "pad": 1000 + 7919 * i}, f)
            env = dict(os.environ, PYTHONHASHSEED=str(hs))
            p = subprocess.run([sys.executable, "-c",
                                "import sys; sys.path.insert(0, %r); from harness.checks import c16; c16.worker_main(%r)"
                                % (core_check.ROOT, jp)], capture_output=True, text=True, env=env)
            ds.add(json.loads(p.stdout)["digests"][0])
    finally:
        tla.rm(wd)
    print("digests over 6 runs:", sorted(ds))
    if len(ds) > 1:
        print(f"VIOLATION property={prop} replay={path}")
        return 1
    return 0


def selftest(prop: str, seed: int) -> int:
    return 0
