"""C17: the code generator writes modules that rebuild the source machine exactly, or writes nothing.

Every job = (machine JSON, template, sync/async, 1 or 2 files).  The real CLI
(`python -m xstate_statemachine.cli generate-template`) runs in a scratch directory; the directory is
listed before and after; `--check` runs on the fresh output; a second generation into another directory
is compared byte for byte; a fresh subprocess (harness/cgworker.py) imports what was written, builds the
machine it defines and reads it back as a normal form.  The observation of each invocation is validated
by TLC against spec/CodegenObs.tla (the final states the protocol of spec/Codegen.tla allows - checked
by TLC with invariants NoWriteBeforeVerified / AllOrNothing - plus what a written module must be);
"equals the source machine" is decided against Norm(J) computed by TLC from spec/Frontend.tla.
"""
from __future__ import annotations

import ast
import copy
import filecmp
import io
import json
import os
import random
import subprocess
import sys
import time
import tokenize
from typing import Any, Dict, List

from .. import core_check, frontend as fe, gen, report, tla
from ..core_check import budget_map
from ..rt import REPO_SRC
from . import c18
from .core import NPROC

ASSUMPTIONS = [
    "the CLI is run as a subprocess with PYTHONPATH = the repository's src; each generated output is imported in a fresh subprocess",
    "'equals the source machine' = normal form of the built machine equals Norm(J) from spec/Frontend.tla (when the spec classes J as 'accept'; otherwise the library's own reading of J) plus equal configurations along a fixed event sequence",
    "for the JSON-loading templates 'binds every name' = create_machine(json, logic_modules=[generated logic]) succeeds (discovery is fail-fast)",
    "injection is probed with names carrying quote/newline/docstring/comment breakers around a payload that would create a sentinel file; a payload identifier appearing as a NAME token also counts",
]

TEMPLATES = ["pythonic-builder", "pythonic-functional", "pythonic-class", "class-json", "function-json"]
PAYLOAD = "__import__('os').system('touch {s}')"


def hostile_configs(sentinel: str) -> List[gen.Spec]:
    pay = PAYLOAD.format(s=sentinel)
    breakers = ['"; ' + pay + ' #', "'; " + pay + " #", '"""\n' + pay + '\n"""', "\\", "a\nimport os\n" + pay, "x'''" + pay + "'''y",
                "{" + pay + "}", "%s %(x)s {0}", "do it", "do-it", "class", "def", "None", "ünïcode", "1st", "a.b", ""]
    out = []
    for i, b in enumerate(breakers):
        if b == "":
            continue
        cfg = {"id": "m", "initial": "a", "context": {"s": b},
               "states": {"a": {"entry": [b], "on": {"E": {"target": "b", "guard": b, "actions": [{"type": b, "params": {"k": b}}]},
                                                    b if b not in ("",) and "." not in b else "EV": {"target": "b"}},
                                "meta": {"note": b}, "tags": [b]},
                          "b": {"invoke": {"src": b, "onDone": "a"}, "on": {"BACK": "a"}}}}
        out.append(gen.Spec.__new__(gen.Spec))
        sp = out[-1]
        sp.config, sp.family, sp.label = cfg, "hostile", f"hostile-{i}"
        sp.actions, sp.guards, sp.missing, sp.events = [], [], [], None
    # a hostile machine id and state key
    for i, b in enumerate(['m"; ' + pay + ' #', "m'''" + pay]):
        cfg = {"id": b, "initial": "a", "states": {"a": {"on": {"E": "b"}}, "b": {}}}
        sp = gen.Spec.__new__(gen.Spec)
        sp.config, sp.family, sp.label = cfg, "hostile", f"hostile-id-{i}"
        sp.actions, sp.guards, sp.missing, sp.events = [], [], [], None
        out.append(sp)
    # hostile EVENT names (the runner's simulation sends them)
    cfg = {"id": "m", "initial": "a", "states": {"a": {"on": {"E\nV": "b", 'Q"uote': "b", "T'''riple": "b", "back\\slash": "b",
                                                            "#hash": "b", "{brace}": "b"}}, "b": {"on": {"BACK": "a"}}}}
    sp = gen.Spec.__new__(gen.Spec)
    sp.config, sp.family, sp.label = cfg, "hostile", "hostile-events"
    sp.actions, sp.guards, sp.missing, sp.events = [], [], [], None
    out.append(sp)
    # names that collide after normalisation
    cfg = {"id": "m", "initial": "a", "states": {"a": {"entry": ["doIt", "do_it", "do-it", "do it", "DoIt"], "on": {"E": "b"}}, "b": {}}}
    sp = gen.Spec.__new__(gen.Spec)
    sp.config, sp.family, sp.label = cfg, "hostile", "colliding-names"
    sp.actions, sp.guards, sp.missing, sp.events = [], [], [], None
    out.append(sp)
    return out


def stately_corpus(limit: int, rng: random.Random) -> List[gen.Spec]:
    d = os.path.join(os.path.dirname(REPO_SRC), "tests", "tests_cli", "stately_machines")
    out = []
    try:
        files = sorted(f for f in os.listdir(d) if f.endswith(".json"))
    except OSError:
        return out
    rng.shuffle(files)
    for f in files[:limit]:
        try:
            with open(os.path.join(d, f)) as fh:
                cfg = json.load(fh)
        except Exception:  # noqa: BLE001
            continue
        sp = gen.Spec.__new__(gen.Spec)
        sp.config, sp.family, sp.label = cfg, "stately", "stately-" + f[:-5]
        sp.actions, sp.guards, sp.missing, sp.events = [], [], [], None
        out.append(sp)
    return out


def listing(d: str) -> Dict[str, bytes]:
    out = {}
    for root, _dirs, files in os.walk(d):
        if "__pycache__" in root:
            continue
        for f in files:
            p = os.path.join(root, f)
            with open(p, "rb") as fh:
                out[os.path.relpath(p, d)] = fh.read()
    return out


def run_cli(args: List[str], cwd: str, timeout=120, hashseed: str = "1"):
    # every invocation is its own process; generation, --check and regeneration get DIFFERENT hash seeds, so that
    # output depending on set / dict-of-set iteration order shows up as drift
    env = dict(os.environ, PYTHONPATH=REPO_SRC, PYTHONDONTWRITEBYTECODE="1", PYTHONHASHSEED=hashseed)
    p = subprocess.run([sys.executable, "-W", "ignore", "-m", "xstate_statemachine.cli", "generate-template"] + args, cwd=cwd,
                       capture_output=True, text=True, timeout=timeout, env=env)
    return p.returncode, (p.stdout + p.stderr)[-400:]


def name_tokens(src: bytes) -> set:
    names = set()
    try:
        for tok in tokenize.tokenize(io.BytesIO(src).readline):
            if tok.type == tokenize.NAME:
                names.add(tok.string)
    except Exception:  # noqa: BLE001
        pass
    return names


def _without_cid(nf: dict) -> dict:
    return dict(nf, states=[dict(st, cid="") for st in nf.get("states", [])])


def identifierize(cfg: Any) -> Any:
    """The same machine with every action / guard / service name replaced by a camelCase identifier (the generated
    families use marker names such as 'tr:E1:3', which no python function can carry)."""
    import re

    def ident(name: str) -> str:
        if name.startswith("xstate.") or name in ("stateIn", "and", "or", "not"):
            return name
        # tokens capitalised, the rest lower-cased, digit-led tokens prefixed: survives camel -> snake -> camel
        parts = [p for p in re.split(r"[^A-Za-z0-9]+", name) if p]
        out = "n" + "".join(("N" + p) if p[0].isdigit() else (p[:1].upper() + p[1:].lower() + ("z" if len(p) == 1 else "")) for p in parts)
        return out

    def acts(v):
        if isinstance(v, str):
            return ident(v)
        if isinstance(v, list):
            return [acts(x) for x in v]
        if isinstance(v, dict) and isinstance(v.get("type"), str):
            d = dict(v, type=ident(v["type"]))
            if v["type"] in ("xstate.choose", "choose") and isinstance(v.get("params"), dict):
                d["params"] = dict(v["params"], conditions=[trans(c) for c in v["params"].get("conditions", [])])
            return d
        return v

    def guard(g):
        if isinstance(g, str):
            return ident(g)
        if isinstance(g, dict):
            d = dict(g)
            if isinstance(g.get("type"), str):
                d["type"] = ident(g["type"])
            if isinstance(g.get("children"), list):
                d["children"] = [guard(x) for x in g["children"]]
            if isinstance(g.get("params"), dict):
                p = dict(g["params"])
                for k in ("guards", "children"):
                    if isinstance(p.get(k), list):
                        p[k] = [guard(x) for x in p[k]]
                if "guard" in p and g.get("type") in ("and", "or", "not"):
                    p["guard"] = guard(p["guard"])
                d["params"] = p
            return d
        return g

    def trans(t):
        if isinstance(t, list):
            return [trans(x) for x in t]
        if isinstance(t, dict):
            d = dict(t)
            if "actions" in d:
                d["actions"] = acts(d["actions"])
            for k in ("guard", "cond"):
                if k in d:
                    d[k] = guard(d[k])
            return d
        return t

    def state(n):
        d = dict(n)
        for k in ("entry", "exit"):
            if k in d:
                d[k] = acts(d[k])
        for k in ("on", "after"):
            if isinstance(d.get(k), dict):
                d[k] = {e: trans(v) for e, v in d[k].items()}
        for k in ("always", "onDone"):
            if k in d:
                d[k] = trans(d[k])
        if "invoke" in d:
            def inv(i):
                if not isinstance(i, dict):
                    return i
                x = dict(i)
                if isinstance(x.get("src"), str):
                    x["src"] = ident(x["src"])
                for k in ("onDone", "onError"):
                    if k in x:
                        x[k] = trans(x[k])
                return x
            d["invoke"] = [inv(i) for i in d["invoke"]] if isinstance(d["invoke"], list) else inv(d["invoke"])
        if isinstance(d.get("states"), dict):
            d["states"] = {k: state(v) for k, v in d["states"].items()}
        return d

    return state(cfg)


def one_job(job: dict, wd: str, want_nf) -> dict:
    sp: gen.Spec = job["spec"]
    t, am, fc = job["template"], job["am"], job["fc"]
    jd = os.path.join(wd, f"job{job['n']}")
    out1, out2 = os.path.join(jd, "out1"), os.path.join(jd, "out2")
    os.makedirs(out1)
    os.makedirs(out2)
    sentinel = os.path.join(wd, "SENTINEL")
    if os.path.exists(sentinel):
        os.remove(sentinel)
    cfg = sp.config
    jpath = os.path.join(jd, "machine.json")
    with open(jpath, "w") as f:
        json.dump(cfg, f)
    base = ["-t", t, "-am", am, "-fc", str(fc), "--log", "no", "--sleep", "no"]
    before = listing(out1)
    rc, tail = run_cli([jpath, "-o", out1, "-f"] + base, jd)
    after = listing(out1)
    obs: Dict[str, Any] = {"exit": rc, "nnew": len(set(after) - set(before)), "changed": sum(1 for k in before if after.get(k) != before[k]),
                           "kind": "pythonic" if t.startswith("pythonic") else "json", "valid": True, "imported": False, "silent": False,
                           "built": False, "nfEqual": False, "traceEqual": False, "bound": False, "checkRc": 0, "regenSame": True,
                           "hostileCode": False, "payloadRan": False}
    info: Dict[str, Any] = {"cli": tail if rc != 0 else "", "files": sorted(after), "worker": None, "nf_diff": None}
    pys = {k: v for k, v in after.items() if k.endswith(".py")}
    for k, v in pys.items():
        try:
            ast.parse(v)
        except SyntaxError as ex:
            obs["valid"] = False
            info["syntax"] = f"{k}: line {ex.lineno}: {ex.msg}"
        if "__import__" in name_tokens(v):
            obs["hostileCode"] = True
    if os.path.exists(sentinel):
        obs["payloadRan"] = True
    if rc == 0 and pys:
        crc, ctail = run_cli([jpath, "-o", out1, "--check"] + base, jd, hashseed="20260923")
        obs["checkRc"] = crc
        if crc != 0:
            info["check"] = ctail
        rc2, _ = run_cli([jpath, "-o", out2, "-f"] + base, jd, hashseed="777")
        again = listing(out2)
        obs["regenSame"] = rc2 == 0 and again == after
        if obs["valid"]:
            env = dict(os.environ, PYTHONDONTWRITEBYTECODE="1", VERIF_REPO_SRC=REPO_SRC)
            p = subprocess.run([sys.executable, "-W", "ignore", "-m", "harness.cgworker", out1, jpath, t, sentinel], cwd=core_check.ROOT,
                               capture_output=True, text=True, timeout=120, env=env)
            try:
                w = json.loads(p.stdout.strip().splitlines()[-1])
            except Exception:  # noqa: BLE001
                w = {"imported": False, "errors": ["worker: " + (p.stderr or p.stdout)[-300:]]}
            info["worker"] = {k: w.get(k) for k in ("errors", "stdout", "modules")}
            obs["imported"] = bool(w.get("imported"))
            obs["silent"] = bool(w.get("silent"))
            obs["built"] = bool(w.get("built"))
            obs["bound"] = bool(w.get("bound"))
            obs["traceEqual"] = bool(w.get("trace"))
            if w.get("nf") is not None and want_nf is not None:
                # custom state ids are addressing aliases the generator resolves away (targets are compared resolved)
                d = fe.nf_diff(_without_cid(want_nf), _without_cid(w["nf"]))
                obs["nfEqual"] = d is None
                info["nf_diff"] = d
            elif want_nf is None:
                obs["nfEqual"] = True        # no oracle for this config
            if os.path.exists(sentinel):
                obs["payloadRan"] = True
    tla.rm(jd)
    return {"obs": obs, "info": info}


def unit(args: dict) -> dict:
    jobs: List[dict] = args["jobs"]
    out: Dict[str, Any] = {"jobs": 0, "written": 0, "refused": 0, "violations": [], "errors": [], "states": 0, "samples": [],
                           "oracle_spec": 0, "oracle_library": 0, "by_template": {}}
    wd = tla.scratch_dir("verif-c17-")
    try:
        specs = []
        for j in jobs:
            if j["spec"] not in specs:
                # the payload of hostile names points at this unit's sentinel file
                j["spec"].config = json.loads(json.dumps(j["spec"].config).replace("@@SENTINEL@@", os.path.join(wd, "SENTINEL")))
                specs.append(j["spec"])
        # the denotation of every source machine
        want: Dict[int, Any] = {}
        try:
            res, lines = fe.run_front([s.config for s in specs], "rewrite", [frozenset()], os.path.join(wd, "fe"), workers=2)
            out["states"] += res.distinct_states
            for o in lines:
                if o["cls"] == "accept" and o.get("nf") and o["nf"].get("t") != "z":
                    want[o["ci"] - 1] = fe.canon_nf(o["nf"])
        except Exception as ex:  # noqa: BLE001
            out["errors"].append(f"frontend failed: {type(ex).__name__}")
        results = []
        for j in jobs:
            si = specs.index(j["spec"])
            w = want.get(si)
            if w is None:
                pr = fe.probe(j["spec"].config, events=[], rounds=0)
                w = pr["nf"] if pr["cls"] == "ok" else None
                out["oracle_library"] += 1
            else:
                out["oracle_spec"] += 1
            try:
                r = one_job(j, wd, w)
            except subprocess.TimeoutExpired:
                out["errors"].append(f"timeout in job {j['spec'].label} {j['template']}")
                continue
            results.append((j, r))
        # validation of the observations by TLC
        od = os.path.join(wd, "obs")
        os.makedirs(od, exist_ok=True)
        with open(os.path.join(od, "CGObs.tla"), "w") as f:
            f.write("---- MODULE CGObs ----\nEXTENDS TLC\nObs == <<\n" + ",\n".join(tla.to_tla(tla.Rec(r["obs"])) for _j, r in results)
                    + "\n>>\n====\n")
        verdict: Dict[int, List[str]] = {}
        if results:
            res = tla.run_tlc("CodegenObs", "SPECIFICATION OSpec\nINVARIANT Report\nCHECK_DEADLOCK FALSE\n", od, workers=1)
            out["states"] += res.distinct_states
            for o in res.json_lines:
                verdict[o["i"]] = sorted(o["clauses"] or [])
            if len(verdict) != len(results):
                out["errors"].append(f"TLC validated {len(verdict)} of {len(results)} observations: " + "; ".join(res.errors[:2]))
        for i, (j, r) in enumerate(results, 1):
            out["jobs"] += 1
            t = j["template"]
            out["by_template"][t] = out["by_template"].get(t, 0) + 1
            if r["obs"]["exit"] == 0:
                out["written"] += 1
            else:
                out["refused"] += 1
            cl = verdict.get(i, [])
            if cl:
                case = {"op": "generate", "template": t, "async": j["am"], "files": j["fc"], "engine": "sync"}
                out["violations"].append({"property": "C17", "clauses": cl, "engine": "sync", "label": j["spec"].label,
                                          "family": j["spec"].family, "config": j["spec"].config, "actions": [], "guards": [], "missing": [],
                                          "steps": [case], "out": [], "source": "codegen",
                                          "observed_post": {"observation": r["obs"], "info": r["info"]}, "defn": {}})
            elif len(out["samples"]) < 2:
                out["samples"].append({"machine": j["spec"].label, "template": t, "exit": r["obs"]["exit"], "files": r["info"]["files"]})
    except Exception:
        import traceback
        out["errors"].append("unit failed: " + traceback.format_exc().splitlines()[-1])
    finally:
        tla.rm(wd)
    return out


def protocol_check() -> List[str]:
    """TLC on the protocol itself (spec/Codegen.tla): NoWriteBeforeVerified, AllOrNothing for 1 and 2 files."""
    errs = []
    for files in ('{"logic"}', '{"logic", "runner"}'):
        wd = tla.scratch_dir("verif-c17p-")
        try:
            res = tla.run_tlc("Codegen", f"SPECIFICATION PSpec\nCONSTANTS Files = {files}\nINVARIANT NoWriteBeforeVerified\nINVARIANT AllOrNothing\n",
                              wd, workers=1, cont=False)
            if res.returncode != 0 or res.invariant_violations:
                errs.append(f"protocol spec: rc={res.returncode} {res.invariant_violations[:1]} {res.errors[:1]}")
        finally:
            tla.rm(wd)
    return errs


def jobs_for(tier: str, seed: int) -> List[dict]:
    q = tier == "quick"
    rng = random.Random(seed)
    specs = (c18.family_W(seed + 11, 8 if q else 30)
             + gen.family_G(seed + 1, 2 if q else 8, depth=2) + gen.family_S(seed + 2, 2 if q else 8)
             + gen.family_H(seed + 3, 1 if q else 3) + gen.family_X(seed + 4, 1 if q else 8) + gen.family_V(seed + 5, 1 if q else 10)
             + gen.family_R(seed + 6, 1 if q else 6) + gen.family_E(seed + 7, 1 if q else 6))
    twins = []
    for sp in specs:
        tw = gen.Spec.__new__(gen.Spec)
        tw.config, tw.family, tw.label = identifierize(sp.config), sp.family + "i", sp.label + "-ident"
        tw.actions, tw.guards, tw.missing, tw.events = [], [], [], None
        twins.append(tw)
    specs = [x for pair in zip(specs, twins) for x in pair] if not q else twins + specs[:4]
    host = hostile_configs("@@SENTINEL@@")
    if q:
        rng.shuffle(host)
        host = host[:7] + [h for h in host if h.label in ("colliding-names", "hostile-events")]
    specs += host + stately_corpus(6 if q else 104, rng)
    jobs = []
    n = 0
    for sp in specs:
        combos = [(t, am, fc) for t in TEMPLATES for am in ("yes", "no") for fc in (1, 2)]
        if q:
            # every machine meets a pythonic and a JSON template; the rest at random
            pick = [rng.choice([c for c in combos if c[0].startswith("pythonic")]), rng.choice([c for c in combos if not c[0].startswith("pythonic")])]
        elif sp.family in ("stately",):
            pick = rng.sample(combos, 2)
        elif sp.family == "hostile":
            pick = rng.sample(combos, 10)
        else:
            pick = rng.sample(combos, 6)
        for (t, am, fc) in pick:
            n += 1
            jobs.append({"n": n, "spec": sp, "template": t, "am": am, "fc": fc})
    return jobs


def run(prop: str, tier: str, seed: int) -> int:
    t0 = time.time()
    jobs = jobs_for(tier, seed)
    chunks = [jobs[i::NPROC] for i in range(NPROC)]
    units = [{"jobs": c} for c in chunks if c]
    errors = protocol_check()
    if NPROC > 1 and len(units) > 1:
        import concurrent.futures as cf

        with cf.ProcessPoolExecutor(max_workers=NPROC) as ex:
            results = budget_map(ex, unit, units)
    else:
        results = [unit(u) for u in units]
    cov: Dict[str, Any] = {"invocations": 0, "written": 0, "refused": 0, "by_template": {}, "oracle_from_spec": 0, "oracle_from_library": 0,
                           "tlc_states": 0, "samples": []}
    violations = []
    for r in results:
        violations += r["violations"]
        errors += r["errors"]
        cov["invocations"] += r["jobs"]
        cov["written"] += r["written"]
        cov["refused"] += r["refused"]
        cov["oracle_from_spec"] += r["oracle_spec"]
        cov["oracle_from_library"] += r["oracle_library"]
        cov["tlc_states"] += r["states"]
        for k, n in r["by_template"].items():
            cov["by_template"][k] = cov["by_template"].get(k, 0) + n
        if len(cov["samples"]) < 3:
            cov["samples"] += r["samples"][:1]
    cov["traces_validated_against_impl"] = cov["invocations"]
    cov["evaluations"] = cov["invocations"]
    cov["distinct_nontrivial"] = cov["written"]
    cov["exhaustive"] = False
    cov["rule"] = ("machines: family W (every construct, mixed spellings), G (guard expressions), S, H, X (after), V (invoke), R, E, hostile and "
                   "colliding names, Stately exports; x templates {5} x async {yes,no} x files {1,2} (quick: one pythonic and one JSON-loading "
                   "combination per machine); per invocation: directory diff, --check, regeneration, import in a fresh process, rebuild + normal form")
    if not cov["samples"]:
        cov["samples"] = [{"note": "no sample"}]
    return report.finalize(prop, tier, seed, t0, violations=violations, coverage=cov, assumptions=ASSUMPTIONS, errors=errors)


def replay(prop: str, path: str) -> int:
    with open(path) as f:
        rec = json.load(f)
    case = rec["steps"][0]
    sp = gen.Spec.__new__(gen.Spec)
    sp.config, sp.family, sp.label = rec["config"], rec.get("family", "replay"), rec.get("label", "replay")
    sp.actions, sp.guards, sp.missing, sp.events = [], [], [], None
    r = unit({"jobs": [{"n": 1, "spec": sp, "template": case["template"], "am": case["async"], "fc": case["files"]}]})
    print("clauses now:", [v["clauses"] for v in r["violations"]], "errors:", r["errors"][:2])
    for v in r["violations"]:
        print(json.dumps(v["observed_post"])[:1200])
    if r["violations"]:
        print(f"VIOLATION property={prop} replay={path}")
        return 1
    return 0


def selftest(prop: str, seed: int) -> int:
    return 0
