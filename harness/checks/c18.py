"""C18: config front end - spellings are equivalent, malformed input fails loudly.

spec/Frontend.tla states what a raw config DENOTES (Norm: one record per state, every spelling folded,
every target resolved), which configs cannot be interpreted (Probs / Class), the documented respellings
(Apply) and the single-point corruptions (Nodes x WrongValues).  spec/MCFrontend.tla lets TLC enumerate

  rewrite   config x set of rewrites: TLC checks the specification's own theorem (Norm(Apply(J, rs)) =
            Norm(J)) and prints the respelt config; the harness builds it with the real create_machine,
            reads the library's parse back as a normal form and requires
              nf_lib(respelt) = nf_lib(original) = Norm(original)       (structure)
            and replays every edge of the ORIGINAL machine's TLC state graph (spec/SCCore.tla) on the
            RESPELT machine's real engine, state for state and log for log        (behaviour);
  corrupt   config x node x wrong JSON value: TLC prints the class the property demands - reject /
            lazy / either / accept(+ normal form); the harness runs create_machine -> start -> sends on
            the real sync engine and classifies what escapes: an XStateMachineError subclass, a raw
            error (always a violation), or nothing (a violation when rejection was demanded; compared
            with Norm when acceptance was);
  negative  hand-built uninterpretable configs (unresolvable target, duplicate / ambiguous ids, no
            resolvable initial child, missing implementation) classified by the spec and driven to
            their first use.
"""
from __future__ import annotations

import copy
import json
import os
import random
import time
from typing import Any, Dict, List, Optional

from .. import core_check, frontend as fe, gen, pipeline, report, tla
from ..core_check import budget_map
from .. import replay as rp
from .core import NPROC, _size

ASSUMPTIONS = [
    "the tokeniser of harness/frontend.py (split on '.', leading '#'/'.', numeric keys) is the only string processing outside the spec",
    "the library's parse is read back from its MachineNode (nf_lib); targets are resolved by the interpreter's own _resolve_target_state_node",
    "probing uses the sync engine and a logic that implements every name; 'first use' = start() and two rounds of every declared event",
    "the demanded class 'reject' is restricted to shapes the documentation gives no meaning to; documented coercions and defaults are class 'either' (only 'no raw error' is demanded there)",
    "corruptions are single-point: one node replaced by one of 11 representative values of another JSON type (truthy and falsy representatives)",
]

REWRITES = ["tr_obj", "tr_str", "tr_list", "tr_unlist", "always_on", "cond_guard", "act_list", "act_unlist", "act_obj", "act_str",
            "delay_key", "initial_omit", "guard_kids", "tgt_abs", "tgt_cid", "tgt_rel", "tgt_key", "tgt_path"]
CORE_FAMILIES = ("T", "H", "D", "S", "R", "G", "E")


# ----------------------------------------------------------------------------------------------
# family W: machines written in a random mix of spellings, every construct of the config language
# ----------------------------------------------------------------------------------------------
def family_W(seed: int, count: int) -> List[gen.Spec]:
    out = []
    for i in range(count):
        rng = random.Random(seed * 7919 + i)
        out.append(gen.Spec(_w_machine(rng), "W", f"W-{seed}-{i}"))
    return out


def _w_actions(rng, tag):
    n = rng.choice([0, 1, 1, 2])
    acts = []
    for k in range(n):
        name = f"tr:{tag}:{k}"
        acts.append(rng.choice([name, {"type": name}, {"type": name, "params": {"k": rng.choice(["a", 1, None, [1], {"x": 1}])}}]))
    if not acts:
        return None
    if len(acts) == 1 and rng.random() < 0.5:
        return acts[0]
    return acts


def _w_guard(rng, depth=0):
    r = rng.random()
    if depth >= 2 or r < 0.4:
        return rng.choice(["g1", "g2", {"type": "g1"}, {"type": "gp", "params": {"k": rng.choice(["a", "b"])}}])
    if r < 0.55:
        return {"type": "stateIn", "params": {"state": "#m.a"}}
    op = rng.choice(["and", "or", "not"])
    kids = [_w_guard(rng, depth + 1) for _ in range(1 if op == "not" else rng.choice([1, 2, 3]))]
    form = rng.choice(["children", "params.guards", "params.children"] + (["params.guard"] if len(kids) == 1 else []))
    if form == "children":
        return {"type": op, "children": kids}
    if form == "params.guard":
        return {"type": op, "params": {"guard": kids[0]}}
    return {"type": op, "params": {form.split(".")[1]: kids}}


def _w_target(rng, src_path, all_paths, cids):
    """A random spelling of a random target (always one the documented resolver resolves)."""
    tgt = rng.choice(all_paths)
    forms = ["abs"]
    if tuple(tgt) in cids:
        forms.append("cid")
    par = src_path[:-1]
    if len(tgt) > len(par) and tgt[:len(par)] == par:
        forms.append("rel")
    if len(tgt) == len(src_path) and tgt[:-1] == src_path[:-1] and tgt != src_path:
        forms.append("sib")
    f = rng.choice(forms)
    if f == "abs":
        return "#" + ".".join(["m"] + tgt)
    if f == "cid":
        return "#" + cids[tuple(tgt)]
    if f == "rel":
        return "." + ".".join(tgt[len(par):])
    return tgt[-1]


def _w_trans(rng, tag, src_path, all_paths, cids):
    def one(j):
        t: Dict[str, Any] = {}
        if rng.random() < 0.8:
            t["target"] = _w_target(rng, src_path, all_paths, cids)
        if rng.random() < 0.45:
            t[rng.choice(["guard", "cond"])] = _w_guard(rng)
        a = _w_actions(rng, f"{tag}:{j}")
        if a is not None:
            t["actions"] = a
        if rng.random() < 0.15:
            t["reenter"] = True
        if set(t) == {"target"} and rng.random() < 0.6:
            return t["target"]
        return t

    r = rng.random()
    if r < 0.06:
        return None
    if r < 0.6:
        return one(0)
    return [one(j) for j in range(rng.choice([1, 2, 3]))]


def _w_machine(rng) -> dict:
    # tree: paths below the root
    names = ["a", "b", "c", "d", "e"]
    tree: Dict[str, Any] = {}
    paths: List[List[str]] = []
    kinds: Dict[tuple, str] = {}

    def grow(node, path, depth):
        n = rng.choice([2, 3]) if depth == 0 else rng.choice([1, 2, 3])
        for k in names[:n]:
            p = path + [k]
            paths.append(p)
            child: Dict[str, Any] = {}
            node.setdefault("states", {})[k] = child
            r = rng.random()
            if depth < 2 and r < 0.35:
                kinds[tuple(p)] = "parallel" if rng.random() < 0.3 else "compound"
                if kinds[tuple(p)] == "parallel":
                    child["type"] = "parallel"
                grow(child, p, depth + 1)
            elif r < 0.45 and depth > 0:
                kinds[tuple(p)] = "final"
                child["type"] = "final"
            else:
                kinds[tuple(p)] = "atomic"

    root: Dict[str, Any] = {"id": "m"}
    grow(root, [], 0)
    cids: Dict[tuple, str] = {}
    for p in paths:
        if rng.random() < 0.25:
            # (half of the custom ids merely START with the machine id "m": `#mx_a` is a custom id, not a path below the root)
            cids[tuple(p)] = ("id_" if rng.random() < 0.5 else "mx_") + "_".join(p)
    # every AUTOMATIC transition (a state's onDone, an invoke's onDone / onError) leads into one quiet top-level
    # state that has none itself: otherwise random machines contain self-feeding chains (an invoke completing at
    # once re-enters its own state, a completion re-completes) and every probe spins for maxIterations
    root["states"]["z"] = {}
    kinds[("z",)] = "atomic"
    real_paths = list(paths) + [["z"]]
    sink = [["z"]]

    def node_of(p):
        n = root
        for k in p:
            n = n["states"][k]
        return n

    ctr = [0]
    for p in [[]] + paths:
        n = node_of(p)
        kind = kinds.get(tuple(p), "compound")
        if tuple(p) in cids:
            n["id"] = cids[tuple(p)]
        if "states" in n and kind != "parallel":
            kids = list(n["states"])
            if len(kids) > 1 or rng.random() < 0.5:
                n["initial"] = rng.choice(kids)
            if rng.random() < 0.3:
                h: Dict[str, Any] = {"type": "history"}
                if rng.random() < 0.5:
                    h["history"] = rng.choice(["shallow", "deep"])
                if rng.random() < 0.5:
                    h["target"] = rng.choice(kids)
                n["states"]["hist"] = h
        if kind in ("final",):
            continue
        for key in ("entry", "exit"):
            if rng.random() < 0.5:
                a = _w_actions(rng, f"{key}:{'.'.join(p) or 'm'}")
                if a is not None:
                    n[key] = a
        src = p if p else []
        if p:
            on = {}
            for ev in rng.sample(["E1", "E2", "E3", "x.y", "x.*", "*"], rng.choice([0, 1, 2, 3])):
                ctr[0] += 1
                on[ev] = _w_trans(rng, f"{ev}:{ctr[0]}", src, real_paths, cids)
            if on:
                n["on"] = on
            if rng.random() < 0.2:
                ctr[0] += 1
                tr = _w_trans(rng, f"always:{ctr[0]}", src, real_paths, cids)
                if tr is not None:
                    # guarded, so that the machine does not spin
                    trs = tr if isinstance(tr, list) else [tr]
                    trs = [({"target": t} if isinstance(t, str) else dict(t)) for t in trs]
                    for t in trs:
                        # never enabled (the probe's logic answers False for "gnever"): an enabled eventless transition
                        # in a random machine tends to chase itself for maxIterations microsteps on every event
                        t.pop("cond", None)
                        t["guard"] = "gnever"
                    if rng.random() < 0.5:
                        n["always"] = trs if len(trs) > 1 else trs[0]
                    else:
                        n.setdefault("on", {})[""] = trs if len(trs) > 1 else trs[0]
            if rng.random() < 0.2:
                ctr[0] += 1
                key = rng.choice(["100", 100, "DELAY", "2500"])
                n["after"] = {key: _w_trans(rng, f"after:{ctr[0]}", src, real_paths, cids) or "#m"}
            if rng.random() < 0.15 and kind != "final":
                ctr[0] += 1
                inv: Dict[str, Any] = {"src": "svc1"}
                if rng.random() < 0.5:
                    inv["id"] = f"inv{ctr[0]}"
                if rng.random() < 0.7:
                    inv["onDone"] = _w_trans(rng, f"done:{ctr[0]}", src, sink, cids) or "#m.z"
                if rng.random() < 0.5:
                    inv["onError"] = _w_trans(rng, f"err:{ctr[0]}", src, sink, cids) or "#m.z"
                if rng.random() < 0.3:
                    inv["input"] = {"a": 1}
                n["invoke"] = inv if rng.random() < 0.6 else [inv]
            if "states" in n and rng.random() < 0.4:
                ctr[0] += 1
                # (completion leads out of the completed branch: no self-feeding completion chains)
                od = _w_trans(rng, f"onDone:{ctr[0]}", src, sink, cids)
                if isinstance(od, list):
                    od = od[:1] if rng.random() < 0.5 else od[0]
                if od:
                    n["onDone"] = od
        if rng.random() < 0.25:
            n["tags"] = rng.choice(["t1", ["t1", "t2"], []])
        if rng.random() < 0.2:
            n["meta"] = {"k": rng.choice([1, "v", [1, 2], {"z": None}])}
        if rng.random() < 0.1:
            n["description"] = "text"
        if kind == "final" and rng.random() < 0.5:
            n["output"] = {"r": 1}
    if "initial" not in root and len(root["states"]) > 1 and root.get("type") != "parallel":
        root["initial"] = rng.choice([k for k in root["states"] if k != "hist"])
    root["context"] = {"n": 0, "s": "x"}
    return root


# ----------------------------------------------------------------------------------------------
# negative family
# ----------------------------------------------------------------------------------------------
def negatives() -> List[dict]:
    base = {"id": "m", "initial": "a", "states": {"a": {"on": {"E": "b"}}, "b": {}}}

    def mk(label, cfg, want, logic=None):
        return {"label": label, "config": cfg, "want": want, "logic": logic}

    out = []
    c = copy.deepcopy(base)
    c["states"]["a"]["on"]["E"] = "nowhere"
    out.append(mk("unresolvable-plain-target", c, "lazy"))
    c = copy.deepcopy(base)
    c["states"]["a"]["on"]["E"] = {"target": "#m.b.zz"}
    out.append(mk("unresolvable-absolute-target", c, "lazy"))
    c = copy.deepcopy(base)
    c["states"]["a"]["on"]["E"] = {"target": "#other"}
    out.append(mk("unresolvable-custom-id", c, "lazy"))
    c = copy.deepcopy(base)
    c["states"]["a"]["on"]["E"] = {"target": ".zz"}
    out.append(mk("unresolvable-relative-target", c, "lazy"))
    c = copy.deepcopy(base)
    c["states"]["a"]["on"]["E"] = {"target": "b..x"}
    out.append(mk("empty-segment-target", c, "lazy"))
    c = copy.deepcopy(base)
    c["states"]["a"]["always"] = {"target": "nowhere"}
    out.append(mk("unresolvable-always-target", c, "lazy"))
    c = copy.deepcopy(base)
    c["states"]["a"]["id"] = "x"
    c["states"]["b"]["id"] = "x"
    out.append(mk("duplicate-custom-id", c, "reject"))
    c = copy.deepcopy(base)
    c["states"]["a.x"] = {}
    out.append(mk("ambiguous-dotted-key", c, "reject"))
    c = copy.deepcopy(base)
    c["states"]["a"] = {"states": {"p": {}, "q": {}}, "on": {"E": "b"}}
    out.append(mk("compound-without-initial", c, "lazy"))
    c = copy.deepcopy(base)
    c["states"]["a"] = {"initial": "zz", "states": {"p": {}, "q": {}}, "on": {"E": "b"}}
    out.append(mk("initial-names-no-child", c, "lazy"))
    c = copy.deepcopy(base)
    c["initial"] = "zz"
    out.append(mk("root-initial-names-no-child", c, "lazy"))
    c = copy.deepcopy(base)
    c["states"]["b"] = {"initial": "zz", "states": {"p": {}, "q": {}}}
    out.append(mk("entered-later-initial-names-no-child", c, "lazy"))
    c = copy.deepcopy(base)
    c["states"]["a"]["on"]["E"] = {"target": "b", "actions": "notImplemented"}
    out.append(mk("missing-action", c, "missing", "empty"))
    c = copy.deepcopy(base)
    c["states"]["a"]["on"]["E"] = {"target": "b", "guard": "notImplemented"}
    out.append(mk("missing-guard", c, "missing", "empty"))
    c = copy.deepcopy(base)
    c["states"]["a"]["invoke"] = {"src": "notImplemented", "onDone": "b"}
    out.append(mk("missing-service", c, "missing", "empty"))
    return out


# ----------------------------------------------------------------------------------------------
# units
# ----------------------------------------------------------------------------------------------
def _v(clauses, spec, cfg, case, source, observed) -> dict:
    return {"property": "C18", "clauses": clauses, "engine": "sync", "label": spec.label, "family": spec.family,
            "config": cfg, "actions": [], "guards": [], "missing": [], "steps": [case], "out": [], "source": source,
            "observed_post": observed, "defn": {}}


def _names_offender(msg: str, where: str, keys: List[str]) -> bool:
    cands = [where] + [k for k in keys if k and not k.startswith("[")]
    return any(c and c in msg for c in cands)


def rename_transitions(b0: pipeline.Built, b2: pipeline.Built) -> bool:
    """Makes the respelt machine's recorder use the original's transition names (matched by source, bucket,
    key and ordinal).  False when the two definitions do not even have the same transition skeleton."""
    def keyed(defn):
        seen: Dict[tuple, int] = {}
        out = {}
        for t in defn["trans"]:
            k = (t["src"], t["bucket"], t["key"])
            seen[k] = seen.get(k, 0) + 1
            out[k + (seen[k],)] = t["name"]
        return out

    k0, k2 = keyed(b0.defn), keyed(b2.defn)
    if set(k0) != set(k2):
        return False
    ren = {k2[k]: k0[k] for k in k0}
    b2.ctl.tnames = {i: ren[n] for i, n in b2.ctl.tnames.items()}
    return True


def unit_rewrite(args: dict) -> dict:
    specs: List[gen.Spec] = args["specs"]
    rsets: List[frozenset] = args["rsets"]
    out: Dict[str, Any] = {"kind": "rewrite", "cases": 0, "sites_changed": 0, "nf_equal": 0, "violations": [], "errors": [],
                           "cross_edges": 0, "cross_machines": 0, "states": 0, "samples": [], "per_rewrite": {}}
    wd = tla.scratch_dir("verif-c18r-")
    try:
        res, lines = fe.run_front([s.config for s in specs], "rewrite", rsets, wd, workers=args.get("tlc_workers", 2))
        out["states"] = res.distinct_states
        if not res.finished or res.returncode != 0:
            out["errors"].append(f"TLC rewrite rc={res.returncode} " + "; ".join(res.errors[:2]))
        base_nf: Dict[int, dict] = {}
        base_probe: Dict[int, dict] = {}
        for ci, sp in enumerate(specs, 1):
            base_probe[ci] = fe.probe(sp.config)
            base_nf[ci] = base_probe[ci]["nf"]
        spec_nf: Dict[int, Any] = {}
        for o in lines:
            if not o["rs"] and o.get("nf") and o["nf"].get("t") != "z":
                spec_nf[o["ci"]] = fe.canon_nf(o["nf"])
        cross: Dict[int, List[dict]] = {}
        for o in lines:
            ci, rs = o["ci"], sorted(o["rs"])
            sp = specs[ci - 1]
            case = {"op": "rewrite", "rs": rs}
            out["cases"] += 1
            if o["base"] != "accept":
                if not rs:
                    out["errors"].append(f"base config {sp.label} is not class accept: {o['base']} {o['probs'][:3]}")
                continue
            if not o["same"]:
                out["errors"].append(f"specification is not spelling-invariant on {sp.label} under {rs}")
                continue
            cfg2 = fe.untag(o["cfg"])
            if not rs:
                if base_probe[ci]["cls"] != "ok":
                    pr = base_probe[ci]
                    out["violations"].append(_v([f"interpretable_config_{'raw_error' if pr['cls'] == 'raw' else 'refused'}:{pr['exc']}@{pr['stage']}"],
                                                sp, sp.config, case, "rewrite", pr))
                elif ci in spec_nf:
                    d = fe.nf_diff(spec_nf[ci], base_nf[ci])
                    if d:
                        out["violations"].append(_v(["library_reading_differs_from_denotation"], sp, sp.config, case, "rewrite",
                                                    {"diff": d}))
                    else:
                        out["nf_equal"] += 1
                if cfg2 != sp.config:
                    out["errors"].append(f"untag(tag(config)) differs from config on {sp.label}")
                continue
            if cfg2 != sp.config:
                out["sites_changed"] += 1
                if len(rs) == 1:
                    out["per_rewrite"][rs[0]] = out["per_rewrite"].get(rs[0], 0) + 1
            pr = fe.probe(cfg2)
            if pr["cls"] != "ok":
                out["violations"].append(_v([f"spelling_{'raw_error' if pr['cls'] == 'raw' else 'refused'}:{pr['exc']}@{pr['stage']}"],
                                            sp, cfg2, case, "rewrite", {"msg": pr["msg"], "original": sp.config}))
                continue
            if base_nf[ci] is not None:
                d = fe.nf_diff(base_nf[ci], pr["nf"])
                if d:
                    out["violations"].append(_v(["spelling_changes_machine"], sp, cfg2, case, "rewrite",
                                                {"diff": d, "original": sp.config}))
                else:
                    out["nf_equal"] += 1
                if base_probe[ci]["config"] != pr["config"]:
                    out["violations"].append(_v(["spelling_changes_behaviour"], sp, cfg2, case, "rewrite",
                                                {"original_final_configuration": base_probe[ci]["config"],
                                                 "respelt_final_configuration": pr["config"], "original": sp.config}))
            if sp.family in CORE_FAMILIES and cfg2 != sp.config and len(cross.setdefault(ci, [])) < args.get("cross_per_machine", 2):
                cross[ci].append({"rs": rs, "cfg": cfg2})
            if len(out["samples"]) < 2 and cfg2 != sp.config:
                out["samples"].append({"machine": sp.label, "rewrites": rs, "nf_equal": True})
        # behaviour: the original's TLC edges on the respelt machine's real engine
        for ci, todo in cross.items():
            sp = specs[ci - 1]
            try:
                b0 = pipeline.Built(sp)
                mres, edges = pipeline.model_check([b0], os.path.join(wd, f"mc{ci}"), engine=args["engine"], gvals=("T", "F"),
                                                   workers=2, props=("C01",), max_states=args.get("max_states", 60))
                if mres.returncode != 0 and not edges:
                    out["errors"].append(f"TLC core rc={mres.returncode} on {sp.label}")
                    continue
                out["cross_machines"] += 1
                for job in todo:
                    sp2 = gen.Spec(job["cfg"], sp.family, sp.label + "+" + ",".join(job["rs"]))
                    for attr in ("missing", "events", "services"):
                        if hasattr(sp, attr):
                            setattr(sp2, attr, getattr(sp, attr))
                    sp2.actions, sp2.guards = sp.actions, sp.guards
                    b2 = pipeline.Built(sp2)
                    if not rename_transitions(b0, b2):
                        out["violations"].append(_v(["spelling_changes_transition_skeleton"], sp, job["cfg"],
                                                    {"op": "rewrite", "rs": job["rs"]}, "cross", {"original": sp.config}))
                        continue
                    done, bad = rp.replay_edges([b2], edges, args["engine"])
                    out["cross_edges"] += done
                    for m in bad[:3]:
                        paths = rp.bfs_paths(edges)
                        steps = [p.step for p in paths[pipeline.state_key(m.edge.mi, m.edge.frm)]] + [m.edge.step]
                        v = _v([f"respelt_machine_leaves_original_graph:{m.what}"], sp, job["cfg"], {"op": "rewrite", "rs": job["rs"]},
                               "cross", {"steps": steps, "want": m.edge.to, "got": m.post, "original": sp.config})
                        out["violations"].append(v)
            except Exception:
                import traceback
                out["errors"].append("cross replay failed: " + traceback.format_exc().splitlines()[-1])
    except Exception:
        import traceback
        out["errors"].append("unit failed: " + traceback.format_exc().splitlines()[-1])
    finally:
        tla.rm(wd)
    return out


def unit_corrupt(args: dict) -> dict:
    specs: List[gen.Spec] = args["specs"]
    out: Dict[str, Any] = {"kind": "corrupt", "cases": 0, "violations": [], "errors": [], "states": 0, "by_class": {},
                           "named": 0, "lib_errors": 0, "samples": [], "refused_interpretable": 0, "hangs": []}
    wd = tla.scratch_dir("verif-c18c-")
    try:
        res, lines = fe.run_front([s.config for s in specs], "corrupt", [], wd, workers=args.get("tlc_workers", 2),
                                  stride=args.get("stride", 1), offset=args.get("offset", 0))
        out["states"] = res.distinct_states
        if not res.finished or res.returncode != 0:
            out["errors"].append(f"TLC corrupt rc={res.returncode} " + "; ".join(res.errors[:2]))
        for o in lines:
            sp = specs[o["ci"] - 1]
            w = fe.untag(o["w"])
            cfg2 = fe.apply_corruption(sp.config, o["p"], w)
            case = {"op": "corrupt", "at": "/".join(o["keys"]), "path": o["p"], "value": w, "demanded": o["cls"],
                    "probs": sorted(p[1] for p in o["probs"])}
            pr = fe.probe(cfg2)
            out["cases"] += 1
            key = f"{o['cls']}/{pr['cls']}"
            out["by_class"][key] = out["by_class"].get(key, 0) + 1
            if pr["cls"] == "raw":
                out["violations"].append(_v([f"raw_error:{pr['exc']}@{pr['stage']}"], sp, cfg2, case, "corrupt",
                                            {"msg": pr["msg"], "original": sp.config}))
                continue
            if pr["cls"] == "hang":
                out["hangs"].append({"machine": sp.label, "case": case})
                continue
            if pr["cls"] == "lib":
                out["lib_errors"] += 1
                where = next((p[2] for p in o["probs"] if p[0] == "must"), "")
                if _names_offender(pr["msg"], where, o["keys"]):
                    out["named"] += 1
                if o["cls"] == "accept":
                    out["refused_interpretable"] += 1
                continue
            if o["cls"] == "reject":
                out["violations"].append(_v(["accepted_malformed:" + ",".join(case["probs"][:2])], sp, cfg2, case, "corrupt",
                                            {"final_configuration": pr["config"], "original": sp.config}))
            elif o["cls"] == "accept" and o.get("nf") and o["nf"].get("t") != "z":
                d = fe.nf_diff(fe.canon_nf(o["nf"]), pr["nf"])
                if d:
                    out["violations"].append(_v(["library_reading_differs_from_denotation"], sp, cfg2, case, "corrupt",
                                                {"diff": d, "original": sp.config}))
            if len(out["samples"]) < 2 and o["cls"] == "reject":
                out["samples"].append({"machine": sp.label, "case": case, "library": pr["exc"] or "accepted"})
    except Exception:
        import traceback
        out["errors"].append("unit failed: " + traceback.format_exc().splitlines()[-1])
    finally:
        tla.rm(wd)
    return out


def unit_negative(args: dict) -> dict:
    from xstate_statemachine import MachineLogic
    negs = negatives()
    out: Dict[str, Any] = {"kind": "negative", "cases": 0, "violations": [], "errors": [], "states": 0, "samples": []}
    wd = tla.scratch_dir("verif-c18n-")
    try:
        res, lines = fe.run_front([n["config"] for n in negs], "rewrite", [frozenset()], wd, workers=2)
        out["states"] = res.distinct_states
        cls = {o["ci"]: o for o in lines}
        for ci, n in enumerate(negs, 1):
            sp = gen.Spec(n["config"], "N", "N-" + n["label"])
            o = cls.get(ci)
            if o is None:
                out["errors"].append(f"no classification for {n['label']}")
                continue
            want = n["want"]
            if want != "missing" and o["cls"] != want:
                out["errors"].append(f"spec classifies {n['label']} as {o['cls']}, expected {want}: {o['probs'][:3]}")
                continue
            out["cases"] += 1
            cfg = n["config"]
            if n["logic"] == "empty":
                stage, exc = "create", None
                try:
                    from ..rt import create_machine, SyncInterpreter
                    m = create_machine(cfg, logic=MachineLogic())
                    stage = "start"
                    it = SyncInterpreter(m)
                    it.start()
                    stage = "send"
                    it.send("E")
                    stage = "done"
                    final = sorted(s.id for s in it._active_state_nodes)
                    it.stop()
                except BaseException as ex:  # noqa: BLE001
                    exc = ex
                pr = {"cls": "ok" if exc is None else fe.classify(exc), "exc": type(exc).__name__ if exc else "", "stage": stage,
                      "msg": str(exc)[:200] if exc else "", "config": None if exc else final}
            else:
                pr = fe.probe(cfg, events=["E"], rounds=1, want_nf=False)
            case = {"op": "negative", "label": n["label"], "demanded": want}
            if pr["cls"] == "raw":
                out["violations"].append(_v([f"raw_error:{pr['exc']}@{pr['stage']}"], sp, cfg, case, "negative", {"msg": pr["msg"]}))
            elif pr["cls"] == "ok":
                out["violations"].append(_v([f"accepted_uninterpretable:{n['label']}"], sp, cfg, case, "negative",
                                            {"final_configuration": pr["config"]}))
            if len(out["samples"]) < 3:
                out["samples"].append({"case": n["label"], "library": f"{pr['exc']}@{pr['stage']}"})
    except Exception:
        import traceback
        out["errors"].append("unit failed: " + traceback.format_exc().splitlines()[-1])
    finally:
        tla.rm(wd)
    return out


def unit(args: dict) -> dict:
    return {"rewrite": unit_rewrite, "corrupt": unit_corrupt, "negative": unit_negative}[args["kind"]](args)


def families(tier: str, seed: int) -> List[gen.Spec]:
    q = tier == "quick"
    return (family_W(seed, 7 if q else 60)
            + gen.family_T_random(seed + 1, 1 if q else 12, min_states=3, max_states=5)
            + gen.family_H(seed + 2, 1 if q else 6)
            + gen.family_D(seed + 3, 1 if q else 8)
            + gen.family_S(seed + 4, 2 if q else 16)
            + gen.family_R(seed + 5, 2 if q else 12)
            + gen.family_G(seed + 6, 2 if q else 12, depth=2)
            + gen.family_E(seed + 7, 2 if q else 12)
            + gen.family_X(seed + 8, 2 if q else 10)
            + gen.family_V(seed + 9, 2 if q else 10)
            + gen.family_A(seed + 10, 2 if q else 10))


def rewrite_sets(tier: str, seed: int) -> List[frozenset]:
    rng = random.Random(seed)
    sets = [frozenset(), frozenset(REWRITES)] + [frozenset([r]) for r in REWRITES]
    for _ in range(4 if tier == "quick" else 40):
        sets.append(frozenset(r for r in REWRITES if rng.random() < 0.4))
    if tier != "quick":
        pairs = [frozenset([a, b]) for i, a in enumerate(REWRITES) for b in REWRITES[i + 1:]]
        sets += rng.sample(pairs, 50)
    return list(dict.fromkeys(sets))


def run(prop: str, tier: str, seed: int) -> int:
    t0 = time.time()
    q = tier == "quick"
    specs = families(tier, seed)
    # a machine whose plain probe does not come back at once (a generated self-feeding chain) would cost that much on
    # every one of its hundreds of cases: it is left out (and the run says so)
    kept, skipped = [], []
    for sp in specs:
        t1 = time.time()
        pr = fe.probe(sp.config, budget_s=4)
        (kept if pr["cls"] == "ok" and time.time() - t1 < 1.5 else skipped).append(sp)
    specs = kept
    rsets = rewrite_sets(tier, seed)
    units: List[dict] = [{"kind": "negative"}]
    budget = 30 if q else 400           # corrupted nodes per machine (x 11 values)
    cunits = [{"kind": "corrupt", "specs": [sp], "stride": max(1, fe.count_nodes(sp.config) // budget), "offset": seed}
              for sp in sorted(specs, key=lambda s: len(json.dumps(s.config)), reverse=True)]
    runits = [{"kind": "rewrite", "specs": [sp], "rsets": rsets, "engine": "sync" if i % 2 == 0 else "async",
               "max_states": 40 if q else 400, "cross_per_machine": 2 if q else 6} for i, sp in enumerate(specs)]
    # the two kinds alternate, so that a run cut short by the thorough tier's time budget still holds both
    for a, b in zip(runits, cunits):
        units += [a, b]
    if NPROC > 1:
        import concurrent.futures as cf

        with cf.ProcessPoolExecutor(max_workers=NPROC) as ex:
            results = budget_map(ex, unit, units)
    else:
        results = [unit(u) for u in units]
    cov: Dict[str, Any] = {"machines": len(specs), "rewrite_sets": len(rsets), "rewrite_cases": 0, "respelt_configs_differing": 0,
                           "normal_forms_equal": 0, "cross_replayed_edges": 0, "cross_machines": 0, "corruption_cases": 0,
                           "corruption_by_demanded_and_observed": {}, "library_errors": 0, "library_errors_naming_offender": 0,
                           "refused_although_interpretable": 0, "negative_cases": 0, "per_rewrite_sites": {}, "tlc_states": 0,
                           "samples": []}
    violations, errors = [], []
    for r in results:
        violations += r["violations"]
        errors += r["errors"]
        cov["tlc_states"] += r["states"]
        if r["kind"] == "rewrite":
            cov["rewrite_cases"] += r["cases"]
            cov["respelt_configs_differing"] += r["sites_changed"]
            cov["normal_forms_equal"] += r["nf_equal"]
            cov["cross_replayed_edges"] += r["cross_edges"]
            cov["cross_machines"] += r["cross_machines"]
            for k, n in r["per_rewrite"].items():
                cov["per_rewrite_sites"][k] = cov["per_rewrite_sites"].get(k, 0) + n
        elif r["kind"] == "corrupt":
            cov["corruption_cases"] += r["cases"]
            cov["library_errors"] += r["lib_errors"]
            cov["library_errors_naming_offender"] += r["named"]
            cov["refused_although_interpretable"] += r["refused_interpretable"]
            for k, n in r["by_class"].items():
                cov["corruption_by_demanded_and_observed"][k] = cov["corruption_by_demanded_and_observed"].get(k, 0) + n
        else:
            cov["negative_cases"] += r["cases"]
        if len(cov["samples"]) < 4:
            cov["samples"] += r["samples"][:1]
    cov["machines_left_out_slow_probe"] = [sp.label for sp in skipped]
    if len(skipped) * 4 > len(kept) + len(skipped):
        errors.append(f"{len(skipped)} generated machines were left out because their plain probe was slow or failed")
    unused = [r for r in REWRITES if not cov["per_rewrite_sites"].get(r)]
    from ..core_check import BUDGET
    if unused and not BUDGET["skipped"]:
        errors.append("rewrites never applicable in this run (vacuous): " + ",".join(unused))
    cov["traces_validated_against_impl"] = cov["rewrite_cases"] + cov["corruption_cases"] + cov["negative_cases"] + cov["cross_replayed_edges"]
    cov["evaluations"] = cov["traces_validated_against_impl"]
    cov["distinct_nontrivial"] = cov["respelt_configs_differing"] + cov["corruption_cases"] + cov["negative_cases"]
    cov["exhaustive"] = False
    cov["rule"] = ("families W (random mix of spellings over every construct) + T/H/D/S/R/G/E/X/V/A; per machine: the rewrite sets "
                   "{none, all, each single, random subsets (thorough: all pairs)} of 18 documented respellings, every node x 11 wrong-typed "
                   "values, plus 15 hand-built uninterpretable configs; distinct = respelt configs that differ textually + corruption cases")
    if not cov["samples"]:
        cov["samples"] = [{"note": "no sample"}]
    return report.finalize(prop, tier, seed, t0, violations=violations, coverage=cov, assumptions=ASSUMPTIONS, errors=errors)


def replay(prop: str, path: str) -> int:
    with open(path) as f:
        rec = json.load(f)
    case = rec["steps"][0]
    cfg = rec["config"]
    pr = fe.probe(cfg, want_nf=False)
    print("case:", json.dumps(case)[:400])
    print("library:", pr["cls"], pr["exc"], "@", pr["stage"], pr["msg"][:200], "final configuration", pr["config"])
    bad = False
    if pr["cls"] == "raw":
        bad = True
    elif case.get("op") in ("corrupt",) and case.get("demanded") == "reject" and pr["cls"] == "ok":
        bad = True
    elif case.get("op") == "negative" and pr["cls"] == "ok":
        bad = True
    elif case.get("op") == "rewrite":
        orig = (rec.get("observed_post") or {}).get("original")
        if orig is not None:
            p0 = fe.probe(orig)
            p2 = fe.probe(cfg)
            d = fe.nf_diff(p0["nf"], p2["nf"]) if p0["nf"] and p2["nf"] else "no normal form"
            print("normal form difference:", d)
            bad = bool(d) or p2["cls"] != "ok"
    if bad:
        print(f"VIOLATION property={prop} replay={path}")
        return 1
    print("no violation reproduced")
    return 0


def selftest(prop: str, seed: int) -> int:
    return 0
