"""C19: Python-defined machines and discovered logic equal their JSON counterparts.

(a) styles   An abstract definition A (family P: nesting, parallel, history-free trees with final states,
             Transition objects between State objects, shorthand on= dicts, always, on_done, tags, meta, root
             properties; optionally the SAME bare state name at several depths) is rendered by the harness
             as the JSON config it denotes, J(A), and through the library's functional, class-based and
             builder styles.  TLC (spec/Frontend.tla) computes Norm(J(A)); every style-built machine's
             parse, read back as a normal form, must equal it, and every edge of J(A)'s behaviour graph
             (spec/SCCore.tla, TLC) is replayed on the style-built machine's real engine.
(b) builds   Two machines from one definition: running one, and mutating what it exposes, must not change
             the other or a later build.
(c) binding  spec/Bind.tla: References(Norm(J)) = the names a config needs; a python callable answers to
             its own name and to its camelCase spelling; TLC enumerates the subsets of offered callables
             with the demanded outcome (all bound / ImplementationMissingError at creation) and the
             admissible callable per name; the harness offers exactly that subset through logic_modules,
             logic_providers and a MachineLogic subclass and compares.
(d) override a user implementation named like a built-in action / guard runs instead of the built-in.
"""
from __future__ import annotations

import copy
import json
import os
import random
import time
import types
from typing import Any, Dict, List

from .. import frontend as fe, gen, pipeline, pyapi, report, tla
from ..core_check import budget_map
from .. import replay as rp
from . import c18
from .core import NPROC

ASSUMPTIONS = [
    "the JSON a definition denotes is produced by the harness's own renderer (harness/pyapi.py): a Transition object is declared on its source State object's node and targets its target State object's node",
    "the camelCase spelling of a python name is computed by the harness's own converter (split on '_', upper-case the first character of each later component, keep the rest)",
    "Transition-object events are kept disjoint from the keys of a state's on= shorthand (the combination has no evident denotation)",
    "style-built machines are driven with the recorder's callables registered under the config's names; which implementation ran is read from the recorder",
    "(d) is decided by running the real engines only; the specification contributes the rule Runs(a, userImpl)",
]


def camel(name: str) -> str:
    parts = name.split("_")
    return parts[0] + "".join(p[:1].upper() + p[1:] for p in parts[1:])


def spawn_key(action: str) -> str:
    for pre in ("spawn_blocking_", "spawn_"):
        if action.startswith(pre):
            return action[len(pre):]
    return ""


def _v(clauses, label, cfg, case, source, observed) -> dict:
    return {"property": "C19", "clauses": clauses, "engine": case.get("engine", "sync"), "label": label, "family": "P",
            "config": cfg, "actions": [], "guards": [], "missing": [], "steps": [case], "out": [], "source": source,
            "observed_post": observed, "defn": {}}


# ----------------------------------------------------------------------------------------------
# (a) + (b)
# ----------------------------------------------------------------------------------------------
def unit_styles(args: dict) -> dict:
    defs: List[dict] = args["defs"]
    engine = args["engine"]
    out: Dict[str, Any] = {"kind": "styles", "machines": 0, "style_builds": 0, "nf_equal": 0, "cross_edges": 0, "violations": [],
                           "errors": [], "states": 0, "samples": [], "independence_checks": 0}
    wd = tla.scratch_dir("verif-c19s-")
    try:
        cfgs = [pyapi.denoted_json(a) for a in defs]
        res, lines = fe.run_front(cfgs, "rewrite", [frozenset()], wd, workers=2)
        if res.returncode != 0 or not res.finished:
            out["errors"].append(f"TLC frontend rc={res.returncode} " + "; ".join(res.errors[:2]))
        spec_nf = {o["ci"]: o for o in lines}
        for ci, (a, cfg) in enumerate(zip(defs, cfgs), 1):
            o = spec_nf.get(ci)
            if o is None or o["cls"] != "accept" or not o.get("nf") or o["nf"].get("t") == "z":
                out["errors"].append(f"no denotation for {a['label']}: {o and o['cls']} {o and o['probs'][:2]}")
                continue
            want = fe.canon_nf(o["nf"])
            out["machines"] += 1
            sp = gen.Spec(cfg, "P", a["label"])
            b0 = pipeline.Built(sp)
            d = fe.nf_diff(want, fe.nf_lib(b0.machine))
            if d:
                out["violations"].append(_v(["json_reading_differs_from_denotation"], a["label"], cfg, {"op": "json"}, "styles", {"diff": d}))
                continue
            edges = None
            for style, build in pyapi.STYLES.items():
                case = {"op": "style", "style": style, "engine": engine}
                b = pipeline.Built(sp)
                try:
                    m = build(a, b.logic)
                except Exception as ex:  # noqa: BLE001
                    out["violations"].append(_v([f"style_build_fails:{type(ex).__name__}"], a["label"], cfg, case, "styles",
                                                {"msg": str(ex)[:200], "definition": a}))
                    continue
                out["style_builds"] += 1
                d = fe.nf_diff(want, fe.nf_lib(m))
                if d:
                    out["violations"].append(_v(["python_defined_machine_differs_from_denotation"], a["label"], cfg, case, "styles",
                                                {"diff": d, "definition": a, "duplicate_names": pyapi.has_duplicate_names(a)}))
                    continue
                out["nf_equal"] += 1
                # behaviour: J(A)'s TLC graph on the style-built machine
                try:
                    if edges is None:
                        mres, edges = pipeline.model_check([b0], os.path.join(wd, f"mc{ci}"), engine=engine, gvals=("T", "F"),
                                                           workers=2, props=("C01",), max_states=args.get("max_states", 60))
                        out["states"] += mres.distinct_states
                    b.machine = m
                    b.defn = pipeline.export_machine(m, b.ctl, events=getattr(sp, "events", None))
                    if not c18.rename_transitions(b0, b):
                        out["violations"].append(_v(["python_defined_machine_has_other_transitions"], a["label"], cfg, case, "styles",
                                                    {"definition": a}))
                        continue
                    done, bad = rp.replay_edges([b], edges, engine)
                    out["cross_edges"] += done
                    for mm in bad[:2]:
                        paths = rp.bfs_paths(edges)
                        steps = [p.step for p in paths[pipeline.state_key(mm.edge.mi, mm.edge.frm)]] + [mm.edge.step]
                        out["violations"].append(_v([f"python_defined_machine_leaves_json_graph:{mm.what}"], a["label"], cfg, case, "styles",
                                                    {"steps": steps, "want": mm.edge.to, "got": mm.post, "definition": a}))
                except Exception:
                    import traceback
                    out["errors"].append("cross replay failed: " + traceback.format_exc().splitlines()[-1])
            # (b) independence of builds
            try:
                out["violations"] += independence(a, cfg, sp, want)
                out["independence_checks"] += 1
            except Exception:
                import traceback
                out["errors"].append("independence failed: " + traceback.format_exc().splitlines()[-1])
            if len(out["samples"]) < 2:
                out["samples"].append({"definition": a["label"], "styles": list(pyapi.STYLES), "nf_equal": True})
    except Exception:
        import traceback
        out["errors"].append("unit failed: " + traceback.format_exc().splitlines()[-1])
    finally:
        tla.rm(wd)
    return out


def _poke(m) -> None:
    """Mutates what a built machine exposes."""
    if isinstance(m.initial_context, dict):
        m.initial_context["__poked__"] = 1
    for n in fe._walk(m):
        n.tags.add("__poked__")
        if isinstance(n.meta, dict):
            n.meta["__poked__"] = 1
        for tl in n.on.values():
            for t in tl:
                if t.actions:
                    t.actions[0].params = {"__poked__": 1}


def independence(a: dict, cfg: dict, sp, want) -> List[dict]:
    from ..rt import SyncInterpreter
    bad: List[dict] = []
    b = pipeline.Built(sp)
    events = fe.events_of(cfg)
    # one definition object per style, built repeatedly
    fobjs: Dict[tuple, Any] = {}
    fstates = [pyapi._mk_state(s, fobjs, (s["name"],)) for s in a["states"]]
    ftrans = pyapi._mk_transitions(a, fobjs, True)
    fctx = copy.deepcopy(a.get("context"))
    froot = pyapi._root_state(a)
    acts = [pyapi._named(f, n, "action") for n, f in b.logic.actions.items()]
    grds = [pyapi._named(f, n, "guard") for n, f in b.logic.guards.items()]
    cls = pyapi.class_definition(a, b.logic)
    mb = pyapi.builder_definition(a, b.logic)
    makers = {
        "functional": lambda: pyapi.py.build_machine(id=a["id"], states=fstates, transitions=ftrans, actions=acts, guards=grds,
                                                     context=fctx, root=froot),
        "class": lambda: cls.create_machine(),
        "builder": lambda: mb.build(),
    }
    for style, make in makers.items():
        case = {"op": "independence", "style": style}
        m1 = make()
        m2 = make()
        # the logic of one build is its own: same object / same tables / same bound instance means that state kept by
        # the callables of one machine (or an edit of its logic) shows up in the other
        shared = []
        if m1.logic is m2.logic:
            shared.append("logic_object")
        for tname in ("actions", "guards", "services"):
            t1, t2 = getattr(m1.logic, tname), getattr(m2.logic, tname)
            if t1 is t2 and t1:
                shared.append(tname + "_table")
            for k in t1:
                f1, f2 = t1.get(k), t2.get(k)
                i1 = getattr(f1, "args", (None,))[0] if getattr(f1, "args", None) else getattr(f1, "__self__", None)
                i2 = getattr(f2, "args", (None,))[0] if getattr(f2, "args", None) else getattr(f2, "__self__", None)
                if i1 is not None and i1 is i2 and style == "class":
                    shared.append("bound_instance")
                    break
        if shared:
            bad.append(_v(["builds_share_" + "_and_".join(sorted(set(shared)))], a["label"], cfg, case, "independence", {"definition": a}))
            continue
        before = fe.nf_lib(m2)
        if fe.nf_diff(want, before):
            continue        # reported by (a)
        # run the first
        b.ctl.reset()
        it = SyncInterpreter(m1)
        try:
            it.start()
            b.ctl.gv = {"g1": "T", "g2": "F"}
            for e in events[:6]:
                it.send(e)
            it.stop()
        except Exception:  # noqa: BLE001
            pass
        d = fe.nf_diff(before, fe.nf_lib(m2))
        if d:
            bad.append(_v(["running_one_build_changes_another"], a["label"], cfg, case, "independence", {"diff": d, "definition": a}))
            continue
        _poke(m1)
        d = fe.nf_diff(before, fe.nf_lib(m2))
        if d:
            bad.append(_v(["mutating_one_build_changes_another"], a["label"], cfg, case, "independence", {"diff": d, "definition": a}))
            continue
        m3 = make()
        d = fe.nf_diff(before, fe.nf_lib(m3))
        if d:
            bad.append(_v(["mutating_one_build_changes_a_later_build"], a["label"], cfg, case, "independence", {"diff": d, "definition": a}))
    return bad


# ----------------------------------------------------------------------------------------------
# (c) binding
# ----------------------------------------------------------------------------------------------
BIND_CFG = """SPECIFICATION Spec
INVARIANT Inv
CHECK_DEADLOCK FALSE
"""


def bind_config(rng: random.Random) -> Dict[str, Any]:
    """A config whose logic names exercise every binding rule, and the python names that can be offered."""
    pool = [("doIt", "do_it"), ("setURL", "set_URL"), ("log2x", "log_2x"), ("a_bC", "a_bC"), ("runFast", "runFast"),
            ("notifyAll", "notify_all"), ("xY", "x_y")]
    gpool = [("isOk", "is_ok"), ("hasURL", "has_URL"), ("canGo", "canGo")]
    spool = [("fetchData", "fetch_data"), ("loadIt", "loadIt")]
    acts = rng.sample(pool, 4)
    grds = rng.sample(gpool, 2)
    svc = rng.choice(spool)
    spawn_svc = rng.choice([("worker", "worker"), ("jobRunner", "job_runner")])
    a0, a1, a2, a3 = [x[0] for x in acts]
    g0, g1 = [x[0] for x in grds]
    cfg = {
        "id": "m", "initial": "a", "context": {"n": 0},
        "states": {
            "a": {"entry": [a0], "exit": {"type": a1, "params": {"k": 1}},
                  "on": {"E1": {"target": "b", "guard": g0, "actions": [a2, {"type": "xstate.assign", "params": {"assignment": {"n": 1}}}]},
                         "E2": {"target": "c", "guard": {"type": "and", "children": [g0, {"type": "not", "children": [g1]},
                                                                                  {"type": "stateIn", "params": {"state": "#m.a"}}]}},
                         "E3": {"actions": [{"type": "xstate.choose", "params": {"conditions": [
                             {"guard": "chooseGuard", "actions": ["inChoose"]}, {"actions": [a3]}]}}]},
                         "E4": {"actions": ["spawn_" + spawn_svc[0]]}}},
            "b": {"invoke": {"src": svc[0], "onDone": {"target": "a", "actions": ["afterDone"]}, "onError": "c"},
                  "on": {"E1": "a"}},
            "c": {"type": "final"},
        },
    }
    offered = [x[1] for x in acts] + [x[1] for x in grds] + [svc[1], spawn_svc[1], "choose_guard", "in_choose", "after_done",
                                                             "_private", "unused_fn"]
    return {"config": cfg, "funcs": offered}


def _make_source(kind: str, names: List[str], need: Dict[str, set], log: List[str]):
    """A module / provider / MachineLogic subclass offering exactly `names`; every stub logs its python name."""
    from xstate_statemachine import MachineLogic

    def role(n: str) -> str:
        for k in ("actions", "guards", "services"):
            if n in need[k] or camel(n) in need[k]:
                return k
        return "actions"

    def stub(n: str, r: str, method: bool):
        if r == "guards":
            if method:
                def g(self, context, event):
                    log.append(n)
                    return True
            else:
                def g(context, event):
                    log.append(n)
                    return True
            g.__name__ = n
            return g
        if r == "services":
            if method:
                def s(self, interpreter, context, event):
                    log.append(n)
                    return "ok"
            else:
                def s(interpreter, context, event):
                    log.append(n)
                    return "ok"
            s.__name__ = n
            return s
        if method:
            def a(self, interpreter, context, event, action_def):
                log.append(n)
        else:
            def a(interpreter, context, event, action_def):
                log.append(n)
        a.__name__ = n
        return a

    if kind == "module":
        mod = types.ModuleType("verif_offered_logic")
        for n in names:
            f = stub(n, role(n), False)
            f.__module__ = mod.__name__
            setattr(mod, n, f)
        return mod
    ns = {n: stub(n, role(n), True) for n in names}
    if kind == "provider":
        return type("Provider", (), ns)()
    return type("Logic", (MachineLogic,), ns)()


def unit_bind(args: dict) -> dict:
    from xstate_statemachine import create_machine, SyncInterpreter
    from xstate_statemachine.exceptions import ImplementationMissingError, XStateMachineError
    from xstate_statemachine.actions import BUILTIN_ACTION_ALIASES
    rng = random.Random(args["seed"])
    bc = bind_config(rng)
    cfg, funcs = bc["config"], bc["funcs"]
    out: Dict[str, Any] = {"kind": "bind", "cases": 0, "violations": [], "errors": [], "states": 0, "samples": [], "bound": 0, "missing": 0,
                           "ran_checked": 0}
    wd = tla.scratch_dir("verif-c19b-")
    try:
        fe.write_fbatch(os.path.join(wd, "FBatch.tla"), [cfg])
        acts_in_cfg = set()
        gen.collect_names(cfg, acts_in_cfg_list := [], [])
        spawn = {a: spawn_key(a) for a in acts_in_cfg_list if spawn_key(a)}
        nchoices = args.get("choices", 0)
        choices = []
        if nchoices:
            choices.append(frozenset(funcs))
            for f in funcs:
                choices.append(frozenset(funcs) - {f})
            while len(choices) < nchoices:
                choices.append(frozenset(f for f in funcs if rng.random() < 0.8))
        consts = {
            "Funcs": tla.to_tla(set(funcs)),
            "Private": tla.to_tla({f for f in funcs if f.startswith("_")}),
            "Camel": "(" + " @@ ".join(f"{tla.tla_str(f)} :> {tla.tla_str(camel(f))}" for f in funcs) + ")",
            "Builtins": tla.to_tla(set(BUILTIN_ACTION_ALIASES)),
            "SpawnKey": ("(" + " @@ ".join(f"{tla.tla_str(a)} :> {tla.tla_str(k)}" for a, k in spawn.items()) + ")") if spawn else "<<>>",
            "Choices": "{" + ", ".join(tla.to_tla(set(c)) if c else "{}" for c in dict.fromkeys(choices)) + "}" if choices else "{}",
        }
        with open(os.path.join(wd, "BindConsts.tla"), "w") as f:
            f.write("---- MODULE BindConsts ----\nEXTENDS TLC\n" + "".join(f"{k} == {v}\n" for k, v in consts.items()) + "====\n")
        text = BIND_CFG
        res = tla.run_tlc("Bind", text, wd, workers=1, cont=True)
        out["states"] = res.distinct_states
        if res.returncode != 0 and not res.json_lines:
            out["errors"].append(f"TLC bind rc={res.returncode} " + "; ".join(res.errors[:3]))
        seen = set()
        for o in res.json_lines:
            offered = sorted(o["offered"] or [])
            if tuple(offered) in seen:
                continue
            seen.add(tuple(offered))
            need = {"actions": set(o["actions"] or []), "guards": set(o["guards"] or []), "services": set(o["services"] or [])}
            binding = {b["name"]: set(b["cands"] or []) for b in (o["binding"] or [])}
            for kind in ("module", "provider", "subclass"):
                log: List[str] = []
                case = {"op": "bind", "source": kind, "offered": offered, "demanded": o["outcome"], "missing": sorted(o["missing"] or [])}
                out["cases"] += 1
                src = _make_source(kind, offered, need, log)
                try:
                    if kind == "module":
                        m = create_machine(cfg, logic_modules=[src])
                    elif kind == "provider":
                        m = create_machine(cfg, logic_providers=[src])
                    else:
                        m = create_machine(cfg, logic=src)
                    got, exc = "bound", None
                except ImplementationMissingError as ex:
                    got, exc = "missing", ex
                except BaseException as ex:  # noqa: BLE001
                    got, exc = "other:" + type(ex).__name__, ex
                if kind == "subclass":
                    # explicit logic is checked on use, not at creation: only the names offered must be bound
                    if got != "bound":
                        out["violations"].append(_v([f"subclass_logic_rejected:{got}"], "bind", cfg, case, "bind", {"msg": str(exc)[:200]}))
                        continue
                    tables = {"actions": m.logic.actions, "guards": m.logic.guards, "services": m.logic.services}
                    for k, names in need.items():
                        for n in names:
                            if n in binding and n not in tables[k]:
                                out["violations"].append(_v([f"subclass_method_not_bound_under_config_spelling:{k}"], "bind", cfg,
                                                            dict(case, name=n, candidates=sorted(binding[n])), "bind", {}))
                    continue
                if got != o["outcome"]:
                    out["violations"].append(_v([f"discovery_outcome:{got}_demanded:{o['outcome']}"], "bind", cfg, case, "bind",
                                                {"msg": str(exc)[:200] if exc else ""}))
                    continue
                if got == "missing":
                    out["missing"] += 1
                    continue
                out["bound"] += 1
                tables = {"actions": m.logic.actions, "guards": m.logic.guards, "services": m.logic.services}
                wrong = []
                for k, names in need.items():
                    for n in names:
                        f = tables[k].get(n)
                        pyname = getattr(f, "__name__", None)
                        if f is None or pyname not in binding.get(n, set()):
                            wrong.append((k, n, pyname))
                if wrong:
                    out["violations"].append(_v(["name_bound_to_wrong_or_no_callable"], "bind", cfg, dict(case, wrong=wrong[:4]), "bind", {}))
                    continue
                # which implementation runs
                it = SyncInterpreter(m)
                try:
                    it.start()
                    for e in ("E3", "E1", "E1", "E2"):
                        it.send(e)
                    it.stop()
                except XStateMachineError as ex:
                    out["violations"].append(_v([f"bound_machine_fails_on_use:{type(ex).__name__}"], "bind", cfg, case, "bind",
                                                {"msg": str(ex)[:200], "ran": log[:20]}))
                    continue
                except BaseException as ex:  # noqa: BLE001
                    out["errors"].append(f"bound machine raised {type(ex).__name__}: {str(ex)[:120]}")
                    continue
                out["ran_checked"] += 1
                allowed = set().union(*binding.values()) if binding else set()
                stray = [n for n in log if n not in allowed]
                if stray:
                    out["violations"].append(_v(["unreferenced_callable_ran"], "bind", cfg, dict(case, stray=stray[:4]), "bind", {}))
            if len(out["samples"]) < 2:
                out["samples"].append({"offered": offered, "demanded": o["outcome"], "missing": sorted(o["missing"] or [])})
    except Exception:
        import traceback
        out["errors"].append("unit failed: " + traceback.format_exc().splitlines()[-1])
    finally:
        tla.rm(wd)
    return out


# ----------------------------------------------------------------------------------------------
# (d) user implementation beats built-in
# ----------------------------------------------------------------------------------------------
def unit_override(args: dict) -> dict:
    from xstate_statemachine import create_machine, SyncInterpreter, MachineLogic, Interpreter
    from xstate_statemachine.actions import BUILTIN_ACTION_ALIASES
    import asyncio
    out: Dict[str, Any] = {"kind": "override", "cases": 0, "violations": [], "errors": [], "states": 0, "samples": []}
    positions = ("on", "entry", "exit", "always", "after_list", "state_onDone", "invoke_onDone", "invoke_onError")
    jobs = [(name, how, eng, positions[(i + j + k) % len(positions)] if (how, eng) != ("explicit", "sync") else "on")
            for i, name in enumerate(sorted(BUILTIN_ACTION_ALIASES)) for j, how in enumerate(("explicit", "module"))
            for k, eng in enumerate(("sync", "async"))]
    # every position at least once per (how, engine) for a few aliases
    jobs += [(name, how, eng, pos) for name in ("log", "assign", "raise", "xstate.sendParent") for how in ("explicit", "module")
             for eng in ("sync", "async") for pos in positions]
    if True:
        if True:
            for (name, how, eng, pos) in jobs:
                ran: List[str] = []

                def impl(interpreter, context, event, action_def):
                    ran.append("user")

                def svc_ok(interpreter, context, event):
                    return "ok"

                def svc_bad(interpreter, context, event):
                    raise RuntimeError("planned service failure")
                act = {"type": name, "params": {"event": "X", "assignment": {"n": 5}, "to": "nobody", "id": "x", "label": "l"}}
                a_state: Dict[str, Any] = {"on": {"E": {"target": "b"}}}
                b_state: Dict[str, Any] = {}
                services = {}
                if pos == "on":
                    a_state = {"on": {"E": {"actions": [act]}}}
                elif pos == "entry":
                    b_state = {"entry": [act]}
                elif pos == "exit":
                    a_state = {"exit": act, "on": {"E": "b"}}
                elif pos == "always":
                    b_state = {"always": {"target": "c", "actions": [act]}}
                elif pos == "after_list":
                    a_state = {"on": {"E": [{"target": "b", "guard": "never"}, {"actions": [act]}]}}
                elif pos == "state_onDone":
                    b_state = {"initial": "f", "states": {"f": {"type": "final"}}, "onDone": {"target": "c", "actions": [act]}}
                elif pos == "invoke_onDone":
                    b_state = {"invoke": {"src": "svcOk", "onDone": {"target": "c", "actions": [act]}}}
                    services = {"svcOk": svc_ok}
                elif pos == "invoke_onError":
                    b_state = {"invoke": {"src": "svcBad", "onError": {"target": "c", "actions": act}}}
                    services = {"svcBad": svc_bad}
                cfg = {"id": "m", "initial": "a", "context": {"n": 0}, "states": {"a": a_state, "b": b_state, "c": {}}}
                case = {"op": "override", "builtin": name, "via": how, "engine": eng, "position": pos}
                try:
                    if how == "explicit":
                        m = create_machine(cfg, logic=MachineLogic(actions={name: impl}, guards={"never": lambda c, e: False},
                                                                   services=services))
                    else:
                        if not name.isidentifier():
                            continue
                        mod = types.ModuleType("verif_override_logic")
                        impl.__name__ = name
                        impl.__module__ = mod.__name__
                        setattr(mod, name, impl)

                        def never(context, event):
                            return False
                        for fn_name, fn in (("never", never), ("svcOk", svc_ok), ("svcBad", svc_bad)):
                            fn.__module__ = mod.__name__
                            fn.__name__ = fn_name
                            setattr(mod, fn_name, fn)
                        m = create_machine(cfg, logic_modules=[mod])
                    out["cases"] += 1
                    if eng == "sync":
                        it = SyncInterpreter(m)
                        it.start()
                        it.send("E")
                        ctx = dict(it.context)
                        it.stop()
                    else:
                        async def go():
                            it = Interpreter(m)
                            await it.start()
                            await it.send("E")
                            for _ in range(60):
                                await asyncio.sleep(0)
                            c = dict(it.context)
                            await it.stop()
                            return c
                        ctx = asyncio.run(go())
                except BaseException as ex:  # noqa: BLE001
                    out["violations"].append(_v([f"override_fails:{type(ex).__name__}"], "override", cfg, case, "override", {"msg": str(ex)[:200]}))
                    continue
                if ran != ["user"] or ctx.get("n") != 0:
                    out["violations"].append(_v(["builtin_ran_instead_of_user_implementation"], "override", cfg, case, "override",
                                                {"ran": ran, "context": ctx}))
    # guard named like the built-in stateIn
    for eng in ("sync",):
        ran = []

        def g(context, event):
            ran.append("user")
            return False
        cfg = {"id": "m", "initial": "a", "states": {"a": {"on": {"E": {"target": "b", "guard": {"type": "stateIn", "params": {"state": "#m.a"}}}}},
                                                     "b": {}}}
        out["cases"] += 1
        m = create_machine(cfg, logic=MachineLogic(guards={"stateIn": g}))
        it = SyncInterpreter(m)
        it.start()
        it.send("E")
        conf = sorted(s.id for s in it._active_state_nodes)
        it.stop()
        if ran != ["user"] or "m.b" in conf:
            out["violations"].append(_v(["builtin_guard_ran_instead_of_user_implementation"], "override", cfg,
                                        {"op": "override", "builtin": "stateIn", "engine": eng}, "override", {"ran": ran, "configuration": conf}))
    out["samples"].append({"builtins": len(BUILTIN_ACTION_ALIASES)})
    return out


def unit(args: dict) -> dict:
    return {"styles": unit_styles, "bind": unit_bind, "override": unit_override}[args["kind"]](args)


def run(prop: str, tier: str, seed: int) -> int:
    t0 = time.time()
    q = tier == "quick"
    defs = (pyapi.family_P(seed, 10 if q else 70) + pyapi.family_P(seed + 1, 10 if q else 70, rich=True)
            + pyapi.family_P(seed + 2, 6 if q else 40, dup_names=True) + pyapi.family_P(seed + 3, 4 if q else 30, dup_names=True, rich=True))
    units: List[dict] = [{"kind": "override"}]
    for i in range(3 if q else 8):
        units.append({"kind": "bind", "seed": seed * 31 + i, "choices": 40 if q else 0})
    for i, a in enumerate(defs):
        units.append({"kind": "styles", "defs": [a], "engine": "sync" if i % 2 == 0 else "async", "max_states": 40 if q else 300})
    if NPROC > 1:
        import concurrent.futures as cf

        with cf.ProcessPoolExecutor(max_workers=NPROC) as ex:
            results = budget_map(ex, unit, units)
    else:
        results = [unit(u) for u in units]
    cov: Dict[str, Any] = {"definitions": len(defs), "style_builds": 0, "normal_forms_equal": 0, "cross_replayed_edges": 0,
                           "independence_checks": 0, "binding_cases": 0, "binding_bound": 0, "binding_missing": 0, "binding_runs_checked": 0,
                           "override_cases": 0, "tlc_states": 0, "samples": []}
    violations, errors = [], []
    for r in results:
        violations += r["violations"]
        errors += r["errors"]
        cov["tlc_states"] += r["states"]
        if r["kind"] == "styles":
            cov["style_builds"] += r["style_builds"]
            cov["normal_forms_equal"] += r["nf_equal"]
            cov["cross_replayed_edges"] += r["cross_edges"]
            cov["independence_checks"] += r["independence_checks"]
        elif r["kind"] == "bind":
            cov["binding_cases"] += r["cases"]
            cov["binding_bound"] += r["bound"]
            cov["binding_missing"] += r["missing"]
            cov["binding_runs_checked"] += r["ran_checked"]
        else:
            cov["override_cases"] += r["cases"]
        if len(cov["samples"]) < 4:
            cov["samples"] += r["samples"][:1]
    cov["traces_validated_against_impl"] = cov["style_builds"] + cov["cross_replayed_edges"] + cov["binding_cases"] + cov["override_cases"]
    cov["evaluations"] = cov["traces_validated_against_impl"]
    cov["distinct_nontrivial"] = cov["style_builds"] + cov["binding_cases"] + cov["override_cases"]
    cov["exhaustive"] = False
    cov["rule"] = ("family P (random trees depth <= 3 with parallel/final states, Transition objects incl. internal/reenter/guards, on= "
                   "shorthand, always, on_done, root properties, tags, meta; a quarter with the same bare name at several depths) x 3 styles; "
                   "binding: configs whose names exercise exact/snake/camel/acronym/digit spellings, choose branches, spawn_ directives, "
                   "composite guards; offered subsets = all, each-one-missing, random (thorough: all 2^n); override: every built-in alias x "
                   "explicit/module x sync/async")
    if not cov["samples"]:
        cov["samples"] = [{"note": "no sample"}]
    return report.finalize(prop, tier, seed, t0, violations=violations, coverage=cov, assumptions=ASSUMPTIONS, errors=errors)


def replay(prop: str, path: str) -> int:
    with open(path) as f:
        rec = json.load(f)
    case = rec["steps"][0]
    print("case:", json.dumps(case)[:500])
    print("observed when recorded:", json.dumps(rec.get("observed_post"))[:600])
    a = (rec.get("observed_post") or {}).get("definition")
    if case.get("op") == "style" and a:
        cfg = pyapi.denoted_json(a)
        sp = gen.Spec(cfg, "P", a.get("label", "replay"))
        b = pipeline.Built(sp)
        m = pyapi.STYLES[case["style"]](a, b.logic)
        d = fe.nf_diff(fe.nf_lib(b.machine), fe.nf_lib(m))
        print("normal form difference (JSON-built vs style-built):", d)
        if d:
            print(f"VIOLATION property={prop} replay={path}")
            return 1
        return 0
    print("rerun ./check C19 --tier quick to re-evaluate this case")
    return 0


def selftest(prop: str, seed: int) -> int:
    return 0
