"""C01, C02, C03 (and further core properties): model-check + edge replay + trace validation."""
from __future__ import annotations

import json
import os
import time
from typing import Any, Dict, List

from .. import core_check, gen, pipeline, replay, report, tla
from ..core_check import run_units, shard

NPROC = int(os.environ.get("VERIF_PROCS", "0") or 0) or min(14, os.cpu_count() or 4)

ASSUMPTIONS = [
    "TLC (tla2tools 1.8.0) evaluates spec/SCCore.tla, SCProps.tla, MCCore.tla, TraceCore.tla correctly",
    "the exporter (harness/export.py) faithfully indexes the MachineNode the library parsed; targets are resolved by the library's own resolver",
    "the recorder sees every entry/exit/transition action (marker actions), every plugin hook, every subscriber call, and wrapped internal calls send/_select_transitions/_cancel_state_tasks/_schedule_state_tasks/_after_timer",
    "exhaustive only inside the machine families and guard valuations named in coverage.rule; larger machines are sampled by random walks",
    "async engine observed at quiescence (queue empty and not processing) on a fresh asyncio loop; no timers or services in these families",
]


def families(prop: str, tier: str, seed: int) -> Dict[str, List[gen.Spec]]:
    q = tier == "quick"
    fam: Dict[str, List[gen.Spec]] = {}
    if prop in ("C01", "C03"):
        fam["edge"] = (gen.family_T_random(seed, 16 if q else 100, min_states=3, max_states=5 if q else 6)
                       + gen.family_H(seed + 1, 3 if q else 30)
                       + gen.family_D(seed + 2, 3 if q else 30)
                       + gen.family_F(seed + 4, 8 if q else 37)
                       + gen.family_S(seed + 5, 20 if q else 37))
        fam["walk"] = gen.family_T_random(seed + 3, 8 if q else 37, min_states=8, max_states=14, density=0.35)
    elif prop == "C10":
        fam["edge"] = (gen.family_D(seed, 14 if q else 50)
                       + gen.family_R(seed + 1, 30 if q else 100)
                       + gen.family_T_random(seed + 2, 8 if q else 25, min_states=3, max_states=5))
        fam["walk"] = gen.family_D(seed + 3, 6 if q else 20) + gen.family_R(seed + 4, 6 if q else 20)
    elif prop == "C11":
        fam["edge"] = (gen.family_H(seed, 6 if q else 62)
                       + gen.family_T_random(seed + 2, 10 if q else 37, min_states=4, max_states=6))
        fam["walk"] = gen.family_H(seed + 3, 8 if q else 20, density=0.6)
    elif prop == "C07":
        fam["edge"] = (gen.family_T_random(seed, 6 if q else 50, min_states=3, max_states=5, double=True)
                       + gen.family_R(seed + 1, 6 if q else 50)
                       + gen.family_F(seed + 2, 6 if q else 50)
                       + gen.family_S(seed + 3, 4 if q else 37))
        fam["walk"] = gen.family_F(seed + 4, 6 if q else 20)
    elif prop == "C13":
        fam["edge"] = gen.family_A(seed, 48 if q else 100) + gen.family_R(seed + 1, 10 if q else 50)
        fam["walk"] = gen.family_A(seed + 3, 8 if q else 20)
    elif prop == "C20":
        fam["edge"] = gen.family_E(seed, 60 if q else 375)
        fam["walk"] = gen.family_E(seed + 3, 6 if q else 20)
    elif prop == "C06":
        fam["edge"] = gen.family_G(seed, 14 if q else 200, depth=1 if q else 2) + gen.family_G(seed + 1, 4 if q else 100, depth=2)
        fam["walk"] = gen.family_G(seed + 3, 6 if q else 20)
    elif prop == "C02":
        fam["edge"] = (gen.family_S(seed, 40 if q else 125)
                       + gen.family_T_random(seed + 1, 10 if q else 25, min_states=3, max_states=5))
        fam["walk"] = gen.family_S(seed + 3, 12 if q else 30, big=True)
    return fam


QUICK_BUDGET = {"C01": 9000, "C02": 6000, "C03": 9000, "C10": 9000, "C11": 9000}


def _size(sp: gen.Spec) -> int:
    """Rough cost of exhaustively exploring a machine: states x declared events."""
    def count(node):
        n = 1
        ev = len(node.get("on") or {})
        for c in (node.get("states") or {}).values():
            a, b2 = count(c)
            n += a
            ev += b2
        return n, ev
    n, ev = count(sp.config)
    return n * max(ev, 1)


def trim(specs: List[gen.Spec], budget: int) -> List[gen.Spec]:
    """Quick tier: keeps machines (smallest first within the generated order) until the summed
    size estimate reaches the budget, so the quick check stays within about a minute."""
    out, tot = [], 0
    for sp in specs:
        c = _size(sp)
        if tot + c > budget and out:
            continue
        out.append(sp)
        tot += c
    return out


def engines_for(prop: str) -> List[str]:
    return ["sync", "async", "pure"] if prop == "C01" else ["sync", "async"]


def rule_for(prop: str) -> str:
    return {
        "C01": "machine families T (random trees with one transition per ordered (source,target) pair, reenter twins, targetless), H (history under compound/parallel parents), D (completion nests); TLC explores every reachable quiescent state x every event; every explored edge is replayed on the real engine; non-trivial = the step changes the configuration or runs at least one action",
        "C02": "machine family S (selection layouts: chains and parallel regions with several guarded candidates per (state,event), shared-ancestor handlers, forbidden transitions) + T; every guard valuation over {T,F,R} per step, can() before sends; non-trivial as for C01",
        "C03": "as C01; every executed transition's log segment is checked for order/accounting/frame",
        "C20": "machine family E: two-level machines whose child, parent and root each declare a random subset of the key universe {exact keys up to 3 segments, a.*, a.b.*, a.a.*, b.*, *, ab, done.*, xstate.*, exact synthetic keys}, optionally guarded candidates and null (forbidden) keys; every event type of <=3 segments over {a,b} plus look-alikes (ab, a.bb) and the four synthetic prefixes is sent from every reachable state under every guard valuation",
        "C06": "machine family G: fixed two-level template with stateIn-visible sibling region; candidate lists [guarded, guarded, fallback] on the child, a guarded handler on the parent, a never-implemented guard as first candidate, and a choose action; guard expressions of nesting depth <=2 over named, parameterised, stateIn (three spellings), and missing atoms, operand spellings children / params.guards / params.children / params.guard, guard vs cond key; valuations over {true,false,raise} per atom",
        "C07": "families T/R/F/S; for every reachable state x relevant event the step is explored fault-free and once per user action its fault-free run executes with that action raising (pairs of actions in the thorough tier); family F adds aborting errors (unimplemented entry/exit/transition actions, biased to default-descended states); every edge is also replayed with a plugin whose every hook raises, a raising subscriber and a raising emit listener attached",
        "C13": "machine family A: always rings and finite always chains, self-raise, raise rings, exit-action raise, onDone re-completion rings and finite onDone chains, mixed raise (one raising and one non-raising event per round); maxIterations M in {2,3,5}, chain length L in {M-1, M, M+1}; triggered at start() or by an event; plus bursts of M+2 copies of every relevant event sent in one send_events call; family R for ordinary reactions. Non-termination is detected without a clock: the recorder aborts a public step after 10*(M+1) dequeued events, the specification does the same (fuel), both report Diverged",
        "C10": "machine families D (compound/parallel nests with final children, onDone absent/targetless/guarded/targeted at every level, top-level finals with outputs), R (raise/assign reactions, events queued behind completion) and T; every reachable state x event x guard valuation; completions are counted as rising edges of in-final along the configuration reconstructed from entry/exit witnesses",
        "C11": "machine families H (shallow/deep/both history children under compound and parallel parents, nested regions, default targets, wrapper depth) and T; TLC reaches never-visited / visited / re-visited-with-other-leaves histories by exploring all event sequences; every history-targeting edge from outside the parent is compared with the configuration remembered at the parent's last exit",
    }[prop]


def run(prop: str, tier: str, seed: int) -> int:
    t0 = time.time()
    fam = families(prop, tier, seed)
    q = tier == "quick"
    units: List[dict] = []
    gvals = ("T", "F", "R") if prop in ("C02", "C06") else ("T", "F")
    # edge units: big machines alone (largest first, so the pool balances), small ones grouped
    ordered = sorted(fam["edge"], key=_size, reverse=True)
    groups: List[List[gen.Spec]] = []
    small: List[gen.Spec] = []
    for sp in ordered:
        if _size(sp) >= 400:
            groups.append([sp])
        else:
            small.append(sp)
            if len(small) == 4:
                groups.append(small)
                small = []
    if small:
        groups.append(small)
    for g in groups:
        for eng in engines_for(prop):
            units.append({"specs": g, "engine": eng, "props": [prop], "seed": seed, "gvals": gvals,
                          "with_can": prop == "C02" and eng != "pure", "mc": True,
                          "tlc_workers": 3 if _size(g[0]) >= 400 else 2, "walks": (0, 0),
                          "max_states": (80 if prop == "C07" else 150) if q else 600, "with_burst": prop == "C13",
                          "with_faults": prop == "C07", "fault_pairs": prop == "C07" and not q})
            if prop == "C07":
                # (b) every edge again with a plugin, a subscriber and an emit listener that always raise
                units.append({"specs": g, "engine": eng, "props": [prop], "seed": seed, "gvals": gvals,
                              "with_can": False, "mc": True, "tlc_workers": 2, "walks": (0, 0),
                              "max_states": 40 if q else 600, "observer_faults": True,
                              # ... including the steps in which a user action raises (on_action_error itself raises then)
                              "with_faults": True})
    for eng in engines_for(prop):
        for i, sh in enumerate(shard(fam["walk"], 2 if q else 6)):
            units.append({"specs": sh, "engine": eng, "props": [prop], "seed": seed + 17 * i, "gvals": gvals,
                          "with_can": prop == "C02" and eng != "pure", "mc": False, "tlc_workers": 2,
                          "walks": (len(sh) * (2 if q else 4), 25 if q else 60)})
    results = run_units(units, NPROC)
    violations: List[dict] = []
    errors: List[str] = []
    cov: Dict[str, Any] = {"states": 0, "transitions": 0, "edges_replayed": 0, "divergent_edges": 0,
                           "trace_steps_validated": 0, "trace_steps_divergent": 0, "walk_traces": 0,
                           "machines": 0, "per_engine": {}, "samples": []}
    exhaustive = True
    nontrivial = 0
    for r in results:
        violations += r["violations"]
        errors += r["errors"]
        cov["states"] += r["states"]
        cov["transitions"] += r["transitions"]
        cov["edges_replayed"] += r["replayed"]
        cov["divergent_edges"] += r["divergent_edges"]
        cov["trace_steps_validated"] += r["trace_steps"]
        cov["trace_steps_divergent"] += r["trace_divergent"]
        cov["walk_traces"] += r["walk_traces"]
        cov["machines"] += r["n_machines"]
        exhaustive = exhaustive and r["exhaustive"]
        nontrivial += r["nontrivial"]
        pe = cov["per_engine"].setdefault(r["engine"], {"edges_replayed": 0, "trace_steps": 0})
        pe["edges_replayed"] += r["replayed"]
        pe["trace_steps"] += r["trace_steps"]
        if len(cov["samples"]) < 6:
            cov["samples"] += r["samples"][:1]
    cov["traces_validated_against_impl"] = cov["edges_replayed"] + cov["walk_traces"]
    cov["evaluations"] = cov["edges_replayed"] + cov["trace_steps_validated"]
    cov["distinct_nontrivial"] = nontrivial
    cov["rule"] = rule_for(prop)
    cov["exhaustive"] = exhaustive
    cov["divergences"] = cov["divergent_edges"] + cov["trace_steps_divergent"]
    if cov["divergences"]:
        print(f"DIVERGENCE property={prop}: {cov['divergent_edges']} edges and {cov['trace_steps_divergent']} "
              f"trace steps where the code disagrees with the Impl layer (Prop verdicts were taken on the observed behaviour)")
    if prop == "C01" and (tier == "thorough" or os.environ.get("VERIF_SUITE_TRACES") == "1"):
        # the repository's own test suite as a trace source: every configuration one of its interpreters shows a
        # subscriber is checked by TLC against Legal (spec/SuiteLegal.tla)
        from .. import suite
        scov, sviol, serr = suite.run_suite_traces()
        cov.update(scov)
        violations += sviol
        errors += serr
    if not cov["samples"]:
        cov["samples"] = [{"note": "no sample"}]
    return report.finalize(prop, tier, seed, t0, violations=violations, coverage=cov,
                           assumptions=ASSUMPTIONS, errors=errors)


def replay(prop: str, path: str) -> int:
    """Re-executes a replay file on the current tree and re-evaluates the Prop verdict with TLC."""
    with open(path) as f:
        rec = json.load(f)
    spec = gen.Spec(rec["config"], rec.get("family", "replay"), rec.get("label", "replay"))
    spec.missing = rec.get("missing") or []
    b = pipeline.Built(spec)
    eng = rec["engine"]
    res = replay.RUNNERS[eng](b, rec["steps"]) if False else None
    from .. import replay as rp

    res = rp.RUNNERS[eng](b, rec["steps"])
    pre = core_check.uninit_state(b)
    steps = []
    for st, (post, out) in zip(rec["steps"], res):
        steps.append({"pre": pipeline.obs_state(pre), "step": st, "post": pipeline.obs_state(post), "out": out})
        pre = post
    wd = tla.scratch_dir("verif-replay-")
    try:
        _r, verdicts = pipeline.validate_traces([b], [{"mi": 1, "eng": eng, "tag": "replay", "steps": steps}], wd)
    finally:
        tla.rm(wd)
    bad = [v for v in verdicts if v["prop"].get(prop)]
    for v in sorted(verdicts, key=lambda v: v["l"]):
        print(f"step {v['l']}: impl_match={v['impl_match']} {prop}={v['prop'].get(prop)}")
    if bad:
        print(f"VIOLATION property={prop} replay={path}")
        return 1
    print(f"replay of {path}: property {prop} holds on the current tree")
    return 0


def selftest(prop: str, seed: int) -> int:
    """Shows the binding is real: a recorded trace is accepted, the same trace with one corrupted field
    (a state id in the post configuration / one log entry removed) is rejected by TLC."""
    specs = gen.family_T_random(seed, 3, min_states=4, max_states=6)
    built = pipeline.build_all(specs)
    import random as _r

    rng = _r.Random(seed)
    good = [core_check.random_walk(built[i], i + 1, "sync", rng, 12, ["T", "F"], f"good:{i}", False) for i in range(3)]
    import copy

    bad = copy.deepcopy(good)
    for t in bad:
        t["tag"] = "bad"
        st = next(s for s in t["steps"] if len(s["out"]) > 6)
        del st["out"][len(st["out"]) // 2]           # remove one hook observation
        st2 = t["steps"][-1]
        if st2["post"]["config"]:
            st2["post"]["config"] = st2["post"]["config"][:-1]   # drop one active state
    wd = tla.scratch_dir("verif-self-")
    try:
        _r1, v = pipeline.validate_traces(built, good + bad, wd)
    finally:
        tla.rm(wd)
    ok_good = all(x["impl_match"] for x in v if x["tag"].startswith("good"))
    rejected = [x for x in v if x["tag"] == "bad" and not x["impl_match"]]
    print(f"selftest: good traces accepted={ok_good}; corrupted steps rejected={len(rejected)} (expected >= 3)")
    return 0 if ok_good and len(rejected) >= 3 else 2
