"""./check <property> [--tier quick|thorough] [--replay <file>] [--selftest]"""
from __future__ import annotations

import argparse
import importlib
import json
import os
import sys
import time

ROOT = os.path.dirname(os.path.dirname(os.path.abspath(__file__)))
sys.dont_write_bytecode = True


def main(argv=None) -> int:
    ap = argparse.ArgumentParser()
    ap.add_argument("prop")
    ap.add_argument("--tier", default=os.environ.get("VERIF_TIER", "quick"), choices=["quick", "thorough"])
    ap.add_argument("--replay")
    ap.add_argument("--selftest", action="store_true")
    a = ap.parse_args(argv)
    seed = int(os.environ.get("VERIF_SEED", "20260922") or 20260922)
    from . import checks

    mod = checks.REGISTRY.get(a.prop)
    if mod is None:
        print(f"unknown property {a.prop}", file=sys.stderr)
        return 2
    m = importlib.import_module("harness.checks." + mod)
    try:
        if a.replay:
            return m.replay(a.prop, a.replay)
        if a.selftest:
            return m.selftest(a.prop, seed)
        from . import core_check
        core_check.set_budget(a.tier)
        return m.run(a.prop, a.tier, seed)
    except Exception:
        import traceback

        traceback.print_exc()
        print(f"MACHINERY-FAILURE property={a.prop}")
        return 2


if __name__ == "__main__":
    sys.exit(main())
