"""Generic check driver for the properties decided on the core step semantics.

unit = (shard of machine specs, engine):
  1. export the shard, model-check it with TLC (spec/MCCore.tla): every reachable quiescent
     state x every event x every guard valuation; one edge line per explored step, with the
     Prop verdicts TLC computed for that step
  2. spec -> code: replay every edge on the real engine, compare post-state and log
  3. code -> spec: random walks on the real engine + every mismatching edge observation are
     written as traces and validated by TLC (spec/TraceCore.tla): impl_match and the Prop
     verdicts on what was OBSERVED
A property violation is only ever reported for an observed behaviour of the real code:
an edge whose replay agreed with the model and whose Prop verdict is non-empty, or a trace
step whose Prop verdict is non-empty.
"""
from __future__ import annotations

import concurrent.futures as cf
import hashlib
import json
import os
import random
import time
from typing import Any, Dict, List, Optional, Tuple

from . import findings, gen, pipeline, replay, tla
from .pipeline import Built, Edge, obs_state, state_key

ROOT = os.path.dirname(os.path.dirname(os.path.abspath(__file__)))


def uninit_state(b: Built) -> dict:
    return {"config": [], "hist": {}, "status": "uninitialized", "ctx": dict(b.defn["ctx0"]),
            "output": "NONE", "err": []}


def random_walk(b: Built, mi: int, engine: str, rng: random.Random, n_steps: int, gvals, tag: str,
                with_can: bool, burst: bool = False) -> dict:
    events = sorted(b.defn["events"])
    guards = sorted(b.defn["guards"])
    steps = [{"op": "start", "ev": "", "gv": {g: rng.choice(gvals) for g in guards}}]
    for _ in range(n_steps):
        op = "can" if (with_can and engine != "pure" and rng.random() < 0.15) else "send"
        if burst and engine != "pure" and rng.random() < 0.3:
            evs = [rng.choice(events) for _ in range(rng.randint(2, 40))]
            steps.append({"op": "batch", "ev": evs[0], "evs": evs, "gv": {g: rng.choice(gvals) for g in guards}})
            continue
        steps.append({"op": op, "ev": rng.choice(events), "gv": {g: rng.choice(gvals) for g in guards}})
    res = replay.RUNNERS[engine](b, steps)
    pre = uninit_state(b)
    out_steps = []
    for st, (post, out) in zip(steps, res):
        out_steps.append({"pre": obs_state(pre), "step": st, "post": obs_state(post), "out": out})
        pre = post
        if post["err"]:
            break
    return {"mi": mi, "eng": engine, "tag": tag, "steps": out_steps}


def _viol(prop, clauses, engine, b: Built, steps, out, source, observed_post, pre=None) -> dict:
    return {"property": prop, "clauses": list(clauses), "engine": engine, "label": b.spec.label,
            "missing": list(getattr(b.spec, "missing", []) or []), "pre": pre,
            "family": b.spec.family, "config": b.spec.config, "actions": b.spec.actions,
            "guards": b.spec.guards, "steps": steps, "out": out, "source": source,
            "observed_post": observed_post, "defn": b.defn}


def unit(args: dict) -> dict:
    """Runs one (shard, engine) unit; returns counts and violation records."""
    specs: List[gen.Spec] = args["specs"]
    engine: str = args["engine"]
    props: List[str] = args["props"]
    seed: int = args["seed"]
    wd = tla.scratch_dir("verif-unit-")
    t0 = time.time()
    out: Dict[str, Any] = {"engine": engine, "n_machines": len(specs), "states": 0, "transitions": 0,
                           "edges": 0, "replayed": 0, "divergent_edges": 0, "trace_steps": 0,
                           "trace_divergent": 0, "violations": [], "errors": [], "exhaustive": True,
                           "nontrivial": 0, "samples": [], "walk_traces": 0}
    from . import rt as _rt
    _rt.OBSERVER_FAULTS["on"] = bool(args.get("observer_faults", False))
    try:
        built = pipeline.build_all(specs)
        edges: List[Edge] = []
        if args.get("mc", True):
            res, edges = pipeline.model_check(built, os.path.join(wd, "mc"), engine=engine,
                                              gvals=args["gvals"], with_can=args.get("with_can", False),
                                              workers=args.get("tlc_workers", 2), timeout=args.get("timeout", 1700),
                                              props=props, max_states=args.get("max_states", 10 ** 8),
                                              with_batch=args.get("with_batch", False),
                                              with_burst=args.get("with_burst", False),
                                              with_faults=args.get("with_faults", False),
                                              fault_pairs=args.get("fault_pairs", False),
                                              with_lifecycle=args.get("with_lifecycle", False))
            if res.distinct_states >= args.get("max_states", 10 ** 8):
                out["exhaustive"] = False
            out["states"] = res.distinct_states
            out["transitions"] = res.states_generated
            out["edges"] = len(edges)
            if not res.finished or res.returncode not in (0,):
                out["exhaustive"] = False
                out["errors"].append(f"TLC rc={res.returncode} finished={res.finished} " + "; ".join(res.errors[:3]))
        out["nontrivial"] = sum(1 for e in edges if e.frm["config"] != e.to["config"] or
                                any(o[0] == "act" for o in e.out))
        paths = replay.bfs_paths(edges)
        run = replay.RUNNERS[engine]
        traces: List[dict] = []
        trace_ctx: List[Tuple[Built, list]] = []
        def judge(e, b, steps, post, log, pre):
            out["replayed"] += 1
            what = replay.compare(e, post, log, engine)
            if what is None:
                for p in props:
                    if e.prop.get(p):
                        out["violations"].append(_viol(p, e.prop[p], engine, b, steps, e.out, "edge", post, pre))
            else:
                out["divergent_edges"] += 1
                tstep = {"pre": obs_state(pre), "step": e.step, "post": obs_state(post), "out": log}
                if args.get("observer_faults"):
                    # (b): the same run with well-behaved observers must be identical
                    _rt.OBSERVER_FAULTS["on"] = False
                    try:
                        rc = run(b, steps)
                    finally:
                        _rt.OBSERVER_FAULTS["on"] = True
                    if rc[-1][0] != post or rc[-1][1] != log:
                        for p in props:
                            out["violations"].append(_viol(p, ["observer_fault_changed_behaviour"], engine, b, steps, log,
                                                           "observer-faults", post, pre))
                if e.step.get("faults"):
                    # the fault-free twin of the same step, observed on the real engine
                    twin = dict(e.step)
                    twin.pop("faults", None)
                    rc = run(b, steps[:-1] + [twin])
                    tstep["clean"] = {"post": obs_state(rc[-1][0]), "out": rc[-1][1]}
                    tstep["step"] = dict(e.step, faults=sorted(e.step["faults"]))
                traces.append({"mi": e.mi, "eng": engine, "tag": f"edge:{what}", "steps": [tstep]})
                trace_ctx.append((b, steps[:-1]))

        # Edges that leave the abstract state unchanged (unhandled events, can(), refused sends) are
        # replayed in one run per source state: path once, then all of them in sequence.  Every other
        # edge gets a fresh interpreter, the path, and the step.
        by_src: Dict[str, List[Edge]] = {}
        for e in edges:
            by_src.setdefault(state_key(e.mi, e.frm), []).append(e)
        for k, group in by_src.items():
            if k not in paths:
                continue
            b = built[group[0].mi - 1]
            prefix = [p.step for p in paths[k]]
            still = [e for e in group if e.frm == e.to and not e.dirty and not e.to["err"]]
            moving = [e for e in group if not (e.frm == e.to and not e.dirty and not e.to["err"])]
            if still:
                r = run(b, prefix + [e.step for e in still])
                pre0 = r[len(prefix) - 1][0] if prefix else uninit_state(b)
                for i, e in enumerate(still):
                    if len(prefix) + i >= len(r):
                        # the batched run was cut short (a step diverged): the rest one by one
                        moving = still[i:] + moving
                        break
                    post, log = r[len(prefix) + i]
                    pre = r[len(prefix) + i - 1][0] if len(prefix) + i > 0 else pre0
                    judge(e, b, prefix + [e.step], post, log, pre)
                    if post["status"] != e.to["status"] or post["config"] != e.to["config"]:
                        # the batch assumption (state unchanged) broke: the rest one by one
                        moving = still[i + 1:] + moving
                        break
            for e in moving:
                steps = prefix + [e.step]
                r = run(b, steps)
                post, log = r[-1]
                pre = r[-2][0] if len(r) > 1 else uninit_state(b)
                judge(e, b, steps, post, log, pre)
        if edges:
            e0 = next((e for e in edges if e.frm["config"] != e.to["config"] and e.step["op"] == "send"), edges[0])
            out["samples"].append({"machine": built[e0.mi - 1].spec.label, "from": e0.frm["config"],
                                   "step": e0.step, "to": e0.to["config"], "log_len": len(e0.out)})
        # code -> spec: random walks
        rng = random.Random(seed)
        n_walks, walk_len = args.get("walks", (0, 0))
        for w in range(n_walks):
            mi = rng.randrange(len(built)) + 1
            t = random_walk(built[mi - 1], mi, engine, rng, walk_len, list(args["gvals"]), f"walk:{w}",
                            args.get("with_can", False), args.get("burst_walks", False))
            traces.append(t)
            trace_ctx.append((built[mi - 1], []))
            out["walk_traces"] += 1
        if traces:
            vres, verdicts = pipeline.validate_traces(built, traces, os.path.join(wd, "tr"),
                                                      workers=args.get("tlc_workers", 2), props=props)
            want = sum(len(t["steps"]) for t in traces)
            if len(verdicts) != want:
                out["errors"].append(f"trace validation returned {len(verdicts)} verdicts for {want} steps: "
                                     + "; ".join(vres.errors[:3]))
            for v in verdicts:
                out["trace_steps"] += 1
                t = traces[v["ti"] - 1]
                b, prefix = trace_ctx[v["ti"] - 1]
                if not v["impl_match"]:
                    out["trace_divergent"] += 1
                for p in props:
                    cl = v["prop"].get(p)
                    if cl:
                        steps = prefix + [s["step"] for s in t["steps"][: v["l"]]]
                        st = t["steps"][v["l"] - 1]
                        out["violations"].append(_viol(p, cl, engine, b, steps, st["out"], t["tag"], st["post"]))
            if traces and out["walk_traces"]:
                t = next(t for t in traces if t["tag"].startswith("walk"))
                out["samples"].append({"trace": t["tag"], "engine": engine, "steps": [s["step"] for s in t["steps"][:6]]})
    except Exception as ex:  # machinery failure
        import traceback
        out["errors"].append("unit failed: " + "".join(traceback.format_exception_only(type(ex), ex)).strip()
                             + " @ " + traceback.format_exc().splitlines()[-3].strip())
    finally:
        tla.rm(wd)
    out["wall"] = time.time() - t0
    return out


def shard(specs: List[gen.Spec], n: int) -> List[List[gen.Spec]]:
    n = max(1, min(n, len(specs)))
    return [specs[i::n] for i in range(n)]


# ---- time budget of the thorough tier ---------------------------------------------------------------
# A thorough run explores units (machine groups x engines) until its time budget is used up: work units that
# have not been STARTED by then are not run and are counted in the evidence (`units_not_run_time_budget`);
# units that are running finish normally, so every verdict is about a completely explored unit.
# VERIF_BUDGET_S overrides the budget (0 = none); the quick tier has none.
BUDGET = {"t0": time.time(), "seconds": None, "skipped": 0, "total": 0}


def set_budget(tier: str) -> None:
    v = os.environ.get("VERIF_BUDGET_S")
    sec = float(v) if v else (None if tier == "quick" else 1200.0)
    BUDGET.update(t0=time.time(), seconds=(sec if sec else None), skipped=0, total=0)


def budget_map(ex, fn, items) -> list:
    """list(ex.map(fn, items)) that stops handing out work when the budget is spent; returns the results of
    the items that ran, in order."""
    return budget_collect([ex.submit(fn, it) for it in list(items)])


def budget_collect(futs: list) -> list:
    BUDGET["total"] += len(futs)
    if BUDGET["seconds"] is not None:
        left = BUDGET["t0"] + BUDGET["seconds"] - time.time()
        cf.wait(futs, timeout=max(left, 0))
        for f in futs:
            f.cancel()                      # only work that has not started can be cancelled
    out = []
    for f in futs:
        if f.cancelled():
            BUDGET["skipped"] += 1
        else:
            out.append(f.result())
    return out


def budget_note() -> dict:
    return {"units_total": BUDGET["total"], "units_not_run_time_budget": BUDGET["skipped"],
            "time_budget_s": BUDGET["seconds"]}


def run_units(units: List[dict], max_procs: int) -> List[dict]:
    if max_procs <= 1 or len(units) <= 1:
        return [unit(u) for u in units]
    with cf.ProcessPoolExecutor(max_workers=max_procs) as ex:
        return budget_map(ex, unit, units)


def violation_signature(v: dict) -> str:
    h = hashlib.sha1(json.dumps([v["property"], v["clauses"], v["engine"], v["config"], v["steps"]],
                                sort_keys=True).encode()).hexdigest()[:12]
    return h


def write_replay(v: dict) -> str:
    os.makedirs(os.path.join(ROOT, "replays"), exist_ok=True)
    path = os.path.join(ROOT, "replays", f"{v['property']}-{violation_signature(v)}.json")
    rec = {k: v.get(k) for k in ("property", "clauses", "engine", "label", "family", "config", "actions", "guards",
                                 "missing", "steps", "out", "source", "observed_post")}
    with open(path, "w") as f:
        json.dump(rec, f, indent=1)
    return path
