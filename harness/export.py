"""MachineNode -> TLA+ definition record (the `D` of spec/SCCore.tla).

The exporter reads the tree the LIBRARY parsed and resolves every transition target
with the library's own resolver, so the specification runs on the definition the
implementation actually uses.  It performs no semantic work beyond indexing and
splitting strings on '.'.
"""
from __future__ import annotations

from typing import Any, Dict, List, Optional

from .rt import Ctl, SyncInterpreter
from .tla import Rec

from xstate_statemachine.actions import resolve_builtin, RAISE, ASSIGN, CHOOSE  # noqa: E402
from xstate_statemachine.models import GuardDefinition, MachineNode, StateNode  # noqa: E402

NONE = "NONE"
INTERNAL = ("done.", "error.", "after.", "xstate.")


def walk(node: StateNode):
    yield node
    for c in node.states.values():
        yield from walk(c)


def guard_rec(g: Optional[GuardDefinition], guard_names: set) -> Rec:
    if g is None:
        return Rec(op="none", name="", vk="", kids=[], arg=[])
    if g.is_composite:
        return Rec(op=g.type, name=g.type, vk="", kids=[guard_rec(c, guard_names) for c in g.children], arg=[])
    if g.is_state_in:
        params = g.params
        target = None
        if isinstance(params, dict):
            target = params.get("state", params.get("value"))
        elif isinstance(params, str):
            target = params
        arg: List[str] = []
        if isinstance(target, str) and target:
            arg = (target[1:] if target.startswith("#") else target).split(".")
        guard_names.add(g.type)
        return Rec(op="stateIn", name=g.type, vk=g.type, kids=[], arg=arg)
    vk = guard_vk(g.type, g.params)
    guard_names.add(vk)
    return Rec(op="atom", name=g.type, vk=vk, kids=[], arg=[])


def norm_guard(raw) -> Rec:
    """The guard a RAW transition config denotes, computed without the library (every documented
    operand spelling; `cond` is handled by the caller).  Used as D.trans[t].wantGuard."""
    if raw is None:
        return Rec(op="none", name="", vk="", kids=[], arg=[])
    if isinstance(raw, str):
        return Rec(op="atom", name=raw, vk=raw, kids=[], arg=[])
    t = raw.get("type")
    params = raw.get("params")
    if t in ("and", "or", "not"):
        kids = raw.get("children") or []
        if not kids and isinstance(params, dict):
            kids = params.get("guards") or params.get("children") or []
            if not kids and params.get("guard") is not None:
                kids = [params["guard"]]
        return Rec(op=t, name=t, vk="", kids=[norm_guard(k) for k in kids], arg=[])
    if t == "stateIn":
        target = None
        if isinstance(params, dict):
            target = params.get("state", params.get("value"))
        elif isinstance(params, str):
            target = params
        arg = (target[1:] if target.startswith("#") else target).split(".") if isinstance(target, str) and target else []
        return Rec(op="stateIn", name="stateIn", vk="stateIn", kids=[], arg=arg)
    return Rec(op="atom", name=t, vk=guard_vk(t, params), kids=[], arg=[])


def guard_vk(name: str, params) -> str:
    """Key of the guard valuation: name, or name:<k> for params {"k": ...} (harness convention)."""
    if isinstance(params, dict) and "k" in params and isinstance(params["k"], str):
        return f"{name}:{params['k']}"
    return name


def action_rec(a, out_tag, guard_names=None) -> Rec:
    from xstate_statemachine.models import ActionDefinition

    canon = resolve_builtin(a.type)
    params = a.params if isinstance(a.params, dict) else {}
    if canon == CHOOSE:
        gn = guard_names if guard_names is not None else set()
        branches = []
        for br in params.get("conditions", []):
            gcfg = br.get("guard", br.get("cond"))
            acts = br.get("actions", [])
            acts = acts if isinstance(acts, list) else [acts]
            branches.append(Rec(guard=guard_rec(GuardDefinition(gcfg) if gcfg is not None else None, gn),
                                acts=[action_rec(ActionDefinition(x), out_tag, gn) for x in acts]))
        return Rec(kind="choose", name=a.type, arg=branches)
    if canon == RAISE:
        ev = params.get("event")
        evt = ev if isinstance(ev, str) else (ev or {}).get("type", "?")
        return Rec(kind="raise", name=a.type, arg=[evt])
    if canon == ASSIGN:
        asg = params.get("assignment")
        if isinstance(asg, dict) and len(asg) == 1:
            (k, v), = asg.items()
            return Rec(kind="assign", name=a.type, arg=[k, v])
        return Rec(kind="other", name=a.type, arg=[])
    if canon is not None:
        return Rec(kind="other", name=a.type, arg=[])
    if a.type.startswith("slow:"):
        # harness convention: a coroutine action that sleeps <ms> virtual milliseconds
        return Rec(kind="slow", name=a.type, arg=[int(a.type.split(":")[1])])
    return Rec(kind="user", name=a.type, arg=[])


def _act_info(nodes, trans, extra) -> dict:
    """Marker naming convention of the generators: en:<state>, ex:<state>, tr:<anything>
    (one tr: marker belongs to exactly one transition)."""
    info: Dict[str, Rec] = {}
    for n in nodes:
        for a in n.entry:
            if a.type.startswith("en:"):
                info[a.type] = Rec(sec="entry", owner=n.id)
        for a in n.exit:
            if a.type.startswith("ex:"):
                info[a.type] = Rec(sec="exit", owner=n.id)
    for t in trans:
        for a in t["acts"]:
            if a["name"].startswith("tr:"):
                info[a["name"]] = Rec(sec="trans", owner=t["name"])
    for k, v in (extra or {}).items():
        info[k] = Rec(sec=v["sec"], owner=v["owner"])
    return info


def _delays(machine, nodes, scratch) -> dict:
    """after-event type -> delay in ms, resolved the way _schedule_state_tasks resolves it"""
    out = {}
    for n in nodes:
        for delay_key, tl in n.after.items():
            ms = scratch._resolve_delay(delay_key, None)
            for t in tl:
                out[t.event] = int(ms) if ms is not None else -1
    return out


def fuel_of(machine) -> int:
    """Events one public step may dequeue before spec and harness both call it divergent."""
    return min(10 * (int(getattr(machine, "max_iterations", 1000)) + 1), 300)


def export_machine(machine: MachineNode, ctl: Ctl, *, events: Optional[List[str]] = None,
                   out_tag=None, act_info: Optional[Dict[str, dict]] = None,
                   extra_event_types: Optional[List[str]] = None,
                   intended_guards: Optional[Dict[str, Any]] = None,
                   service_kinds: Optional[Dict[str, str]] = None) -> Rec:
    """Returns the definition record and fills ctl.tnames (id(transition) -> name)."""
    out_tag = out_tag or (lambda v: NONE if v is None else str(v))
    scratch = SyncInterpreter(machine)
    nodes = list(walk(machine))
    sid = [n.id for n in nodes]
    rank = {s: i + 1 for i, s in enumerate(sorted(sid))}
    guard_names: set = set()
    types: set = set()

    trans: List[Rec] = []
    tix: Dict[str, Rec] = {}
    ctl.tnames = {}

    def add(t, bucket: str, src: StateNode) -> int:
        idx = len(trans) + 1
        name = f"t{idx}"
        ctl.tnames[id(t)] = name
        if not t.target_str:
            tgt = NONE
        else:
            node = scratch._resolve_target_state_node(t)
            tgt = node.id if node is not None else "UNRESOLVED"
        types.add(t.event)
        g = guard_rec(t.guard_def, guard_names)
        want = g
        for a in t.actions:
            if intended_guards is not None and a.type in intended_guards:
                want = norm_guard(intended_guards[a.type])
        trans.append(Rec(
            name=name, src=src.id, bucket=bucket, key=t.event,
            guard=g, wantGuard=want, tgt=tgt,
            acts=[action_rec(a, out_tag, guard_names) for a in t.actions],
            reenter=bool(t.reenter), forbidden=bool(t.forbidden),
        ))
        return idx

    for n in nodes:
        on_list = []
        always: List[int] = []
        for key, tl in n.on.items():
            tids = [add(t, "always" if key == "" else "on", n) for t in tl]
            if key == "":
                always.extend(tids)
            else:
                on_list.append(Rec(key=key, tids=tids))
        on_done = [add(n.on_done, "onDone", n)] if n.on_done else []
        after: List[int] = []
        for _delay, tl in n.after.items():
            after.extend(add(t, "after", n) for t in tl)
        inv = []
        for i in n.invoke:
            tids = [add(t, "invDone", n) for t in i.on_done] + [add(t, "invErr", n) for t in i.on_error]
            inv.append(Rec(id=i.id, tids=tids))
        tix[n.id] = Rec(on=on_list, always=always, onDone=on_done, after=after, inv=inv)

    def initial_of(n: StateNode) -> str:
        if n.type != "compound":
            return NONE
        if n.initial:
            child = n.states.get(n.initial)
            return child.id if child is not None else "MISSING"
        return "NOINIT" if n.states else NONE

    def hdefault(n: StateNode) -> str:
        if n.type != "history" or not n.target_str:
            return NONE
        r = scratch._resolve_state_by_target(n.target_str, n)
        return r.id if r is not None else NONE

    declared_events = sorted({k for n in nodes for k in n.on if k and not k.endswith("*")
                              and not k.startswith(INTERNAL)})
    if events is None:
        events = declared_events + ["__nope__"]
    for e in events:
        types.add(e)
    for e in extra_event_types or []:
        types.add(e)
    done_ev = {n.id: f"done.state.{n.id}" for n in nodes}
    entry_ev = {n.id: f"entry.{n.id}" for n in nodes}
    for v in list(done_ev.values()) + list(entry_ev.values()):
        types.add(v)
    for n in nodes:
        for i in n.invoke:
            types.add(f"done.invoke.{i.id}")
            types.add(f"error.platform.{i.id}")
    for t in trans:
        for a in t["acts"]:
            if a["kind"] == "raise":
                types.add(a["arg"][0])
    for n in nodes:
        for a in list(n.entry) + list(n.exit):
            r = action_rec(a, out_tag)
            if r["kind"] == "raise":
                types.add(r["arg"][0])
    ev_kind = {}
    for t in types:
        if t.startswith("done.state."):
            ev_kind[t] = Rec(kind="done", src=t[len("done.state."):])
        elif t.startswith("done.invoke."):
            ev_kind[t] = Rec(kind="done", src=t[len("done.invoke."):])
        elif t.startswith("error.platform."):
            ev_kind[t] = Rec(kind="done", src=t[len("error.platform."):])
        elif t.startswith("after."):
            ev_kind[t] = Rec(kind="after", src="")

    user_actions = set(machine.logic.actions)
    ctx0 = machine.initial_context if isinstance(machine.initial_context, dict) else {}
    ctx0 = {k: v for k, v in ctx0.items() if isinstance(v, (int, str)) and not isinstance(v, bool)}

    return Rec(
        id=machine.id,
        root=machine.id,
        states=set(sid),
        parent={n.id: (n.parent.id if n.parent else NONE) for n in nodes},
        children={n.id: [c.id for c in n.states.values()] for n in nodes},
        kind={n.id: n.type for n in nodes},
        initial={n.id: initial_of(n) for n in nodes},
        hkind={n.id: (n.history or NONE) for n in nodes},
        hdefault={n.id: hdefault(n) for n in nodes},
        depth={n.id: n.depth for n in nodes},
        idRank=rank,
        idSegs={n.id: n.id.split(".") for n in nodes},
        pdesc={a.id: {n.id for n in nodes if n.id == a.id or n.id.startswith(a.id + ".")} for a in nodes},
        entry={n.id: [action_rec(a, out_tag, guard_names) for a in n.entry] for n in nodes},
        exit={n.id: [action_rec(a, out_tag, guard_names) for a in n.exit] for n in nodes},
        trans=trans,
        tix=tix,
        events=set(events),
        segs={t: t.split(".") for t in sorted(types) if t != ""},
        evKind=ev_kind,
        doneEv=done_ev,
        entryEv=entry_ev,
        output={n.id: out_tag(n.output) for n in nodes},
        machineOutput=out_tag(getattr(machine, "machine_output", None)),
        # valuation keys: only guards that have an implementation can be given a value
        guards={g for g in guard_names if g.split(":")[0] in machine.logic.guards},
        guardImpl=set(machine.logic.guards),
        actionImpl=user_actions,
        actInfo=_act_info(nodes, trans, act_info),
        ctx0=ctx0,
        delayMs=_delays(machine, nodes, scratch),
        invokes={n.id: [Rec(id=i.id, src=i.src or "", hasOnError=bool(i.on_error)) for i in n.invoke] for n in nodes},
        serviceImpl=set(machine.logic.services),
        # harness convention: "driver" = a coroutine completed by the driver; "ok" / "fail" = a plain callable that has
        # returned / raised by the time its task first runs
        serviceKind={k: (v if v in ("ok", "fail") else "driver") for k, v in (service_kinds or {}).items()},
        doneInvokeEv={i.id: f"done.invoke.{i.id}" for n in nodes for i in n.invoke},
        errorInvokeEv={i.id: f"error.platform.{i.id}" for n in nodes for i in n.invoke},
        maxIter=int(getattr(machine, "max_iterations", 1000)),
        fuel=fuel_of(machine),
    )
