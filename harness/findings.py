"""Known findings: genuine defects of the pinned tree that are recorded, not repaired.

/verif/known_findings.json is read-only at run time.  Each `known` entry names a
signature predicate defined here; a violation is reported as KNOWN-FINDING only when
the predicate of an entry for the same property holds on the violating step, otherwise
it is a VIOLATION.  `fixed` entries suppress nothing.
"""
from __future__ import annotations

import json
import os
from typing import Any, Callable, Dict, List, Optional

ROOT = os.path.dirname(os.path.dirname(os.path.abspath(__file__)))
PATH = os.path.join(ROOT, "known_findings.json")


def load() -> List[dict]:
    with open(PATH) as f:
        return json.load(f)["findings"]


def _fired(v: dict):
    """Transitions (definition records) that executed in the violating step."""
    d = v["defn"]
    by_name = {t["name"]: t for t in d["trans"]}
    for e in v.get("out") or []:
        if e[0] == "on_transition" and e[2] in by_name:
            yield by_name[e[2]]
    # a step that never reached on_transition (rollback) still selected something
    for e in v.get("out") or []:
        if e[0] == "select" and e[2] == "process":
            for n in e[3]:
                if n in by_name:
                    yield by_name[n]


def sig_history_target_inside_parallel_parent(v: dict) -> bool:
    """The step takes a transition whose target is a history child of a PARALLEL state while
    the source is that parallel state or one of its descendants."""
    d = v["defn"]
    for t in _fired(v):
        tgt = t["tgt"]
        if d["kind"].get(tgt) != "history":
            continue
        p = d["parent"][tgt]
        if d["kind"].get(p) == "parallel" and t["src"] in d["pdesc"][p]:
            return True
    return False


def sig_pure_forgets_history(v: dict) -> bool:
    return v.get("engine") == "pure" and any(
        d for d in [v["defn"]] if any(k == "history" for k in d["kind"].values()))


def sig_nested_done_event_stops_bubbling(v: dict) -> bool:
    """In the step a done.state event was fired for a state X that has a proper ancestor (other
    than the root) which also declares onDone: the upward walk stopped at X."""
    d = v["defn"]
    owners = {s for s in d["states"] if d["tix"][s]["onDone"]}
    done_of = {d["doneEv"][s]: s for s in d["states"]}
    for e in v.get("out") or []:
        if e[0] == "enq" and e[1] in done_of:
            x = done_of[e[1]]
            a = d["parent"][x]
            while a != "NONE":
                if a in owners and a != d["root"]:
                    return True
                a = d["parent"][a]
    return False


def sig_transition_executed_after_done(v: dict) -> bool:
    """A further transition executed (on_transition entry) after the `done` entry of the same step."""
    seen_done = False
    for e in v.get("out") or []:
        if e[0] == "done":
            seen_done = True
        elif seen_done and e[0] == "on_transition" and e[1] == "external":
            return True
    return False


def sig_start_step(v: dict) -> bool:
    return bool(v.get("steps")) and v["steps"][-1]["op"] == "start"


def sig_chain_was_cut(v: dict) -> bool:
    logs = (v.get("out") or []) + (v.get("async_out") or [])
    return any(e[0] in ("cut_drain", "cut_raise", "cut_always") for e in logs)


def sig_pure_with_recorded_history(v: dict) -> bool:
    pre = v.get("pre") or {}
    return any(pre.get("hist", {}).values()) and any(k == "history" for k in v["defn"]["kind"].values())


def sig_start_step_with_raised_events(v: dict) -> bool:
    """start(): the async engine took an eventless transition BEFORE it processed the first event
    raised by the entry actions, while the sync engine processed a raised event during start()."""
    if not sig_start_step(v):
        return False
    sync_processed = any(e[0] == "event" for e in (v.get("out") or []))
    aout = v.get("async_out") or []
    first_ev = next((i for i, e in enumerate(aout) if e[0] == "event"), len(aout))
    settled_first = any(e[0] == "select" and e[2] == "settle" and e[3] for e in aout[:first_ev])
    return sync_processed and settled_first


def sig_stale_done_event(v: dict) -> bool:
    """Some onDone take of a parallel state s in this step was driven by a done.state.s event that
    was enqueued BEFORE s, or a final state inside s, was exited (cancel witness in between)."""
    d = v["defn"]
    out = v.get("out") or []
    by_name = {t["name"]: t for t in d["trans"]}
    owner_of = {d["trans"][i - 1]["name"]: s for s in d["states"] for i in d["tix"][s]["onDone"]}
    for j, e in enumerate(out):
        if e[0] != "on_transition" or e[2] not in owner_of:
            continue
        s = owner_of[e[2]]
        if d["kind"][s] != "parallel":
            continue
        enqs = [i for i in range(j) if out[i][0] == "enq" and out[i][1] == d["doneEv"][s]]
        for i in enqs:
            for x in range(i + 1, j):
                if out[x][0] == "cancel" and (out[x][1] == s or (out[x][1] in d["pdesc"][s] and d["kind"][out[x][1]] == "final")):
                    return True
    return False


def _has(v, kind):
    return any(e[0] == kind for e in (v.get("out") or []))


def sig_sync_burst_cut(v: dict) -> bool:
    return v.get("engine") == "sync" and _has(v, "cut_drain")


def _diverged(v) -> bool:
    return (v.get("observed_post") or {}).get("err") == ["Diverged"]


def sig_async_diverged_done_chain(v: dict) -> bool:
    return v.get("engine") == "async" and _diverged(v) and any(
        e[0] == "event" and e[1].startswith("done.state.") for e in (v.get("out") or []))


def sig_async_diverged_raise_chain(v: dict) -> bool:
    """Async, diverged, and the chain contains a macrostep (the log between two consecutive dequeues)
    in which NOTHING was raised while raised events were still being processed afterwards: that is
    the round which resets the chain counter."""
    if v.get("engine") != "async" or not _diverged(v) or sig_async_diverged_done_chain(v):
        return False
    out = v.get("out") or []
    ev_idx = [i for i, e in enumerate(out) if e[0] == "event"]
    rounds = [out[a:b] for a, b in zip(ev_idx, ev_idx[1:])]
    raising = [any(e[0] == "ax" and "raise" in e[1] for e in r) for r in rounds]
    return any(raising) and any(not x for x in raising[: max(len(raising) - 1, 0)])


def sig_async_diverged_after_cut(v: dict) -> bool:
    return v.get("engine") == "async" and _diverged(v) and _has(v, "cut_raise") and not sig_async_diverged_done_chain(v)


def sig_async_cut_with_backlog(v: dict) -> bool:
    return v.get("engine") == "async" and _has(v, "cut_raise") and bool(v.get("steps")) and v["steps"][-1]["op"] == "batch"


def sig_stale_after_expiry(v: dict) -> bool:
    """The after event that fired was already queued when its owner was (re-)entered: either it sat in
    the queue before this driver step, or in this step the owner's entry witness precedes the
    processing of that event although the event was enqueued before the entry."""
    d = v["defn"]
    out = v.get("out") or []
    pre = v.get("pre") or {}
    after_types = {t["key"]: t["src"] for t in d["trans"] if t["bucket"] == "after"}
    if any(q in after_types for q in (pre.get("queue") or [])):
        return True
    for j, e in enumerate(out):
        if e[0] == "event" and e[1] in after_types:
            owner = after_types[e[1]]
            if any(x[0] == "sched" and x[1] == owner for x in out[:j]):
                return True
    return False


SIGNATURES: Dict[str, Callable[[dict], bool]] = {
    "thread_schedule": lambda v: v.get("source") == "thread-schedule",
    "always": lambda v: True,
    "stale_after_expiry": sig_stale_after_expiry,
    "sync_burst_cut": sig_sync_burst_cut,
    "async_diverged_done_chain": sig_async_diverged_done_chain,
    "async_diverged_raise_chain": sig_async_diverged_raise_chain,
    "async_cut_with_backlog": sig_async_cut_with_backlog,
    "async_diverged_after_cut": sig_async_diverged_after_cut,
    "stale_done_event": sig_stale_done_event,
    "start_step": sig_start_step,
    "chain_was_cut": sig_chain_was_cut,
    "pure_with_recorded_history": sig_pure_with_recorded_history,
    "start_step_with_raised_events": sig_start_step_with_raised_events,
    "transition_executed_after_done": sig_transition_executed_after_done,
    "nested_done_event_stops_bubbling": sig_nested_done_event_stops_bubbling,
    "history_target_inside_parallel_parent": sig_history_target_inside_parallel_parent,
    "pure_forgets_history": sig_pure_forgets_history,
}


def _std_snake(name: str) -> str:
    import re
    s1 = re.sub(r"(.)([A-Z][a-z]+)", r"\1_\2", name)
    return re.sub(r"([a-z0-9])([A-Z])", r"\1_\2", s1).lower()


def _camel(name: str) -> str:
    parts = name.split("_")
    return parts[0] + "".join(p[:1].upper() + p[1:] for p in parts[1:])


def sig_codegen_stub_name_not_discoverable(v: dict) -> bool:
    """C17: a JSON-loading template was written, and the name the generated logic fails to bind is one that
    cannot survive the trip config name -> python function name -> (loader) camelCase name: not an identifier,
    a keyword, or not equal to camel(snake(name)) (consecutive capitals, capital next to a digit)."""
    import keyword
    import re
    if v.get("clauses") != ["generated_logic_does_not_bind_every_name"]:
        return False
    errs = (((v.get("observed_post") or {}).get("info") or {}).get("worker") or {}).get("errors") or []
    names = []
    for e in errs:
        m = re.search(r"(?:Action|Guard|Service) '(.*)' is defined in the machine", e, re.S)
        if m:
            names.append(m.group(1))
    if not names:
        return False
    n = names[0]
    roundtrips = n.isidentifier() and not keyword.iskeyword(n) and _camel(_std_snake(n)) == n
    return not roundtrips


SIGNATURES["codegen_stub_name_not_discoverable"] = sig_codegen_stub_name_not_discoverable


def classify(prop: str, v: dict, findings: Optional[List[dict]] = None) -> Optional[dict]:
    for f in findings if findings is not None else load():
        if f.get("status") != "known":
            continue
        if prop not in f.get("properties", []):
            continue
        clauses = f.get("clauses")
        if clauses and not set(v.get("clauses") or []) <= set(clauses):
            continue
        engines = f.get("engines")
        if engines and v.get("engine") not in engines:
            continue
        pred = SIGNATURES.get(f["signature"])
        if pred is not None and pred(v):
            return f
    return None
