"""Thread-level replay of SCSyncFlag.tla behaviours on the real SyncInterpreter.

Every spec action of thread t (L2 append, P1 flag test, P2 flag set, P3 loop test + pop, P4 finish
processing, P5 flag reset) corresponds to one segment of the real send() call between two
instrumented yield points: before the deque append, before each read / write of `_is_processing`,
before each evaluation of `while self._event_queue`, and inside the (marker) action of the event
being processed.  Worker threads park at every yield point; the controller releases exactly one
thread per spec action, in the order of a TLC trace, so the real engine is put into exactly the
interleaving TLC found.  Observed: how many events were being processed at the same time, what was
processed, and what is left in the queue when every send() has returned.
"""
from __future__ import annotations

import re
import threading
from collections import deque
from typing import Dict, List, Tuple

from . import rt, tla
from .rt import SyncInterpreter, MachineLogic, create_machine


class Controller:
    def __init__(self) -> None:
        self.gates: Dict[str, threading.Semaphore] = {}
        self.arrived = threading.Semaphore(0)
        self.tls = threading.local()
        self.where: Dict[str, str] = {}
        self.open = 0
        self.max_open = 0
        self.processed: List[str] = []
        self.lock = threading.Lock()

    def name(self) -> str:
        return getattr(self.tls, "name", "")

    def yield_point(self, label: str) -> None:
        t = self.name()
        if not t:
            return      # not one of the choreographed threads (construction, start())
        self.where[t] = label
        self.arrived.release()
        self.gates[t].acquire()

    def step(self, t: str) -> str:
        self.gates[t].release()
        self.arrived.acquire()
        return self.where.get(t, "?")


class HookedDeque(deque):
    ctrl: Controller = None  # type: ignore

    def append(self, x):  # L2
        self.ctrl.yield_point("L2")
        return super().append(x)

    def __len__(self):  # P3: `while self._event_queue`
        self.ctrl.yield_point("P3")
        return super().__len__()


def make_interp(ctrl: Controller):
    def act(interp, ctx, event, action_def):
        with ctrl.lock:
            ctrl.open += 1
            ctrl.max_open = max(ctrl.max_open, ctrl.open)
        ctrl.yield_point("P4")
        with ctrl.lock:
            ctrl.open -= 1
            ctrl.processed.append(event.type)

    cfg = {"id": "m", "initial": "s", "states": {"s": {"on": {"A": {"actions": ["mark"]}, "B": {"actions": ["mark"]},
                                                              "C": {"actions": ["mark"]}}}}}
    machine = create_machine(cfg, logic=MachineLogic(actions={"mark": act}))

    class RaceSync(SyncInterpreter):
        @property
        def _is_processing(self):
            if ctrl.name():
                ctrl.yield_point("P1")
            return self.__dict__.get("_flag", False)

        @_is_processing.setter
        def _is_processing(self, v):
            if ctrl.name():
                ctrl.yield_point("P2" if v else "P5")
            self.__dict__["_flag"] = v

    interp = RaceSync(machine)
    interp.start()
    q = HookedDeque()
    q.ctrl = ctrl
    interp._event_queue = q
    return interp


def replay_schedule(schedule: List[Tuple[str, str]], threads: List[str]) -> dict:
    """schedule: [(action, thread)] from a TLC trace. Returns the observation."""
    ctrl = Controller()
    interp = make_interp(ctrl)
    done: Dict[str, bool] = {}

    def worker(name: str):
        ctrl.tls.name = name
        ctrl.yield_point("start")
        try:
            interp.send(name)       # the event type is the thread name, as in the spec
        finally:
            done[name] = True
            ctrl.where[name] = "done"
            ctrl.tls.name = ""
            ctrl.arrived.release()

    ths = {}
    for t in threads:
        ctrl.gates[t] = threading.Semaphore(0)
        ths[t] = threading.Thread(target=worker, args=(t,), daemon=True)
        ths[t].start()
        ctrl.arrived.acquire()          # parked at "start"
        ctrl.step(t)                    # ... advance to its first real yield point (before the append)
    mism = []
    for action, t in schedule:
        at = ctrl.where.get(t)
        if at != action:
            mism.append((action, t, at))
            break
        ctrl.step(t)
    snapshot = {"max_open": ctrl.max_open, "open_now": ctrl.open}
    # let everybody finish, one at a time
    for _ in range(200):
        live = [t for t in threads if not done.get(t)]
        if not live:
            break
        ctrl.step(live[0])
    left = [e.type for e in deque.__iter__(interp._event_queue)]
    return {"max_open": ctrl.max_open, "processed": list(ctrl.processed), "stranded": left,
            "schedule_mismatch": mism, "at_cut": snapshot}


_ACT = re.compile(r"^State \d+: <(\w+)\(\"(\w+)\"\)")


def tlc_traces(threads=("A", "B")) -> List[dict]:
    """Runs TLC on SCSyncFlag with both invariants (-continue) and returns the violating traces."""
    wd = tla.scratch_dir("verif-flag-")
    try:
        cfg = ("SPECIFICATION Spec\nCONSTANTS Threads = {" + ", ".join(f'"{t}"' for t in threads) + "}\n"
               "INVARIANT OneMacrostepAtATime\nINVARIANT NothingStranded\nCHECK_DEADLOCK FALSE\n")
        res = tla.run_tlc("SCSyncFlag", cfg, wd, workers=1, cont=True)
        traces, cur, inv = [], None, None
        for line in res.lines:
            if line.startswith("Error: Invariant"):
                if cur is not None:
                    traces.append({"invariant": inv, "schedule": cur})
                inv = line.split()[2]
                cur = []
            m = _ACT.match(line)
            if m and cur is not None:
                cur.append((m.group(1), m.group(2)))
        if cur is not None:
            traces.append({"invariant": inv, "schedule": cur})
        return traces, res
    finally:
        tla.rm(wd)


_NODE = re.compile(r'^(-?\d+) \[label="(.*?)",(?:tooltip|style)')
_EDGE = re.compile(r'^(-?\d+) -> (-?\d+) \[label="(\w+)\(\\"(\w+)\\"\)"')


def state_graph(threads=("A", "B")):
    """The complete state graph of SCSyncFlag as (init, nodes{id: label}, succ{id: [(action, thread, id2)]})."""
    import os

    wd = tla.scratch_dir("verif-flagg-")
    try:
        cfg = "SPECIFICATION Spec\nCONSTANTS Threads = {" + ", ".join(f'"{t}"' for t in threads) + "}\nCHECK_DEADLOCK FALSE\n"
        res = tla.run_tlc("SCSyncFlag", cfg, wd, workers=1, extra_args=["-dump", "dot,actionlabels", os.path.join(wd, "graph")])
        nodes, succ, init = {}, {}, None
        with open(os.path.join(wd, "graph.dot")) as f:
            for line in f:
                m = _EDGE.match(line)
                if m:
                    succ.setdefault(m.group(1), []).append((m.group(3), m.group(4), m.group(2)))
                    continue
                m = _NODE.match(line)
                if m:
                    nodes[m.group(1)] = m.group(2).replace("\\n", "\n").replace('\\"', '"').replace("\\\\", "\\")
                    if init is None:
                        init = m.group(1)
        return init, nodes, succ, res
    finally:
        tla.rm(wd)


def final_of(label: str) -> dict:
    proc = re.search(r"processed = <<(.*?)>>", label).group(1)
    queue = re.search(r"queue = <<(.*?)>>", label).group(1)
    mo = int(re.search(r"maxOpen = (\d+)", label).group(1))
    f = lambda s: [x.strip().strip('"') for x in s.split(",") if x.strip()]
    return {"processed": f(proc), "stranded": f(queue), "max_open": mo}


def sample_paths(init, succ, limit: int, rng) -> List[List[Tuple[str, str, str]]]:
    """Up to `limit` distinct maximal paths (random DFS)."""
    paths, seen = [], set()
    for _ in range(limit * 4):
        n, p = init, []
        while succ.get(n):
            a, t, n2 = rng.choice(succ[n])
            if n2 == n:
                break
            p.append((a, t, n2))
            n = n2
        key = tuple((a, t) for a, t, _ in p)
        if key not in seen:
            seen.add(key)
            paths.append(p)
        if len(paths) >= limit:
            break
    return paths
