"""Binding of spec/Frontend.tla (what a raw config denotes) to the library's config front end.

  tag / untag    Python config <-> tagged JSON (the TJ of the spec); the tokeniser splits strings on '.'
                 and recognises numeric keys - the only string work the spec cannot do itself.
  nf_lib         the normal form of the machine the LIBRARY built (read off its parsed MachineNode, every
                 target resolved by the interpreter's own resolver)
  canon_nf       canonical Python form of the spec's Norm(J) as printed by TLC, comparable with nf_lib
  probe          create_machine -> start -> sends on the real sync engine with an all-providing logic;
                 classifies the outcome: accepted / library error (XStateMachineError subclass) / raw error
"""
from __future__ import annotations

import json
import os
import re
from typing import Any, Dict, List, Optional

from . import tla
from .tla import Rec
from .rt import SyncInterpreter, MachineLogic, create_machine

from xstate_statemachine.exceptions import XStateMachineError  # noqa: E402
from xstate_statemachine.models import MachineNode, StateNode  # noqa: E402

_NUM = re.compile(r"^[0-9]+$")


def tok_str(s: str) -> Rec:
    hash_ = s.startswith("#")
    dot = s.startswith(".")
    rest = s[1:] if (hash_ or dot) else s
    return Rec(t="s", s=s, hash=hash_, dot=dot, segs=rest.split("."))


def tok_key(k) -> Rec:
    if isinstance(k, bool):
        raise TypeError("bool key")
    if isinstance(k, int):
        return Rec(s=str(k), py="n", isnum=True, n=k, segs=[str(k)])
    isnum = bool(_NUM.match(k)) and len(k) < 9
    return Rec(s=k, py="s", isnum=isnum, n=int(k) if isnum else 0, segs=k.split("."))


def tag(v: Any) -> Rec:
    if v is None:
        return Rec(t="z")
    if isinstance(v, bool):
        return Rec(t="b", b=v)
    if isinstance(v, int):
        return Rec(t="n", n=v)
    if isinstance(v, str):
        return tok_str(v)
    if isinstance(v, (list, tuple)):
        return Rec(t="l", vs=[tag(x) for x in v])
    if isinstance(v, dict):
        return Rec(t="o", ks=[tok_key(k) for k in v], vs=[tag(x) for x in v.values()])
    raise TypeError(f"cannot tag {type(v)}")


def untag(j: Any) -> Any:
    """JSON printed by TLC's ToJson for a TJ value -> Python value."""
    t = j["t"]
    if t == "z":
        return None
    if t == "b":
        return bool(j["b"])
    if t == "n":
        return int(j["n"])
    if t == "s":
        return j["s"]
    if t == "l":
        return [untag(x) for x in (j.get("vs") or [])]
    if t == "o":
        out = {}
        for k, v in zip(j.get("ks") or [], j.get("vs") or []):
            out[int(k["s"]) if k["py"] == "n" else k["s"]] = untag(v)
        return out
    raise ValueError(f"bad tag {t}")


def apply_corruption(cfg: Any, path: List[int], w: Any) -> Any:
    """The harness-side twin of Frontend!Corrupt: index path (1-based positions in insertion order)."""
    if not path:
        return w
    i = path[0] - 1
    if isinstance(cfg, dict):
        out = {}
        for j, (k, v) in enumerate(cfg.items()):
            out[k] = apply_corruption(v, path[1:], w) if j == i else v
        return out
    if isinstance(cfg, list):
        return [apply_corruption(v, path[1:], w) if j == i else v for j, v in enumerate(cfg)]
    raise ValueError("path into scalar")


def write_fbatch(path: str, configs: List[dict]) -> None:
    with open(path, "w") as f:
        f.write("---- MODULE FBatch ----\nEXTENDS TLC\nConfigs == <<\n")
        f.write(",\n".join(tla.to_tla(tag(c)) for c in configs))
        f.write("\n>>\n====\n")


# ----------------------------------------------------------------------------------------------
# the library's normal form
# ----------------------------------------------------------------------------------------------
def _walk(n: StateNode):
    yield n
    for c in n.states.values():
        yield from _walk(c)


def _guard_nf(g) -> dict:
    if g is None:
        return {"type": "", "params": None, "kids": [], "comp": False}
    return {"type": g.type, "params": None if g.is_composite else g.params, "kids": [_guard_nf(k) for k in g.children],
            "comp": bool(g.is_composite)}


def _acts_nf(acts) -> list:
    return [{"type": a.type, "params": a.params} for a in acts]


def nf_lib(machine: MachineNode) -> dict:
    scratch = SyncInterpreter(machine)

    def tnf(t) -> dict:
        tgt = ""
        if t.target_str:
            try:
                node = scratch._resolve_target_state_node(t)
                tgt = node.id if node is not None else "?"
            except XStateMachineError:
                tgt = "?"
        return {"target": tgt, "guard": _guard_nf(t.guard_def), "actions": _acts_nf(t.actions),
                "reenter": bool(t.reenter), "forbidden": bool(t.forbidden)}

    states = []
    for n in _walk(machine):
        ht = ""
        if n.type == "history" and n.target_str:
            r = scratch._resolve_state_by_target(n.target_str, n)
            ht = r.id if r is not None else ""
        after = []
        for k, tl in n.after.items():
            num = isinstance(k, int)
            after.append({"num": num, "n": k if num else 0, "name": "" if num else str(k), "ts": [tnf(t) for t in tl]})
        states.append({
            "id": n.id, "kind": n.type, "initial": n.initial or "", "hist": n.history or "", "htarget": ht,
            "cid": n.custom_id or "",
            "entry": _acts_nf(n.entry), "exit": _acts_nf(n.exit),
            # (an empty eventless bucket denotes nothing: `always: []`)
            "on": sorted(({"ev": ev, "ts": [tnf(t) for t in tl]} for ev, tl in n.on.items() if ev != "" or tl), key=lambda o: o["ev"]),
            "onDone": [tnf(n.on_done)] if n.on_done else [],
            "after": sorted(after, key=lambda o: (o["name"], o["n"])),
            "invoke": [{"id": i.id, "src": i.src, "input": i.input, "onDone": [tnf(t) for t in i.on_done],
                        "onError": [tnf(t) for t in i.on_error]} for i in n.invoke],
            "tags": sorted(n.tags), "meta": n.meta, "output": n.output,
        })
    ctx = machine.initial_context if isinstance(machine.initial_context, dict) else {}
    return {"id": machine.id, "context": ctx, "states": states}


def canon_nf(j: Any) -> Any:
    """TLC's JSON of Norm(J) -> the shape of nf_lib."""
    if isinstance(j, dict):
        if "t" in j and j["t"] in ("z", "b", "n", "s", "l", "o") and set(j) <= {"t", "b", "n", "s", "hash", "dot", "segs", "vs", "ks"}:
            return untag(j)
        out = {k: canon_nf(v) for k, v in j.items()}
        if "on" in out and "kind" in out:
            out["on"] = sorted((o for o in (out["on"] or []) if o["ev"] != "" or o["ts"]), key=lambda o: o["ev"])
            out["after"] = sorted(out["after"] or [], key=lambda o: (o["name"], o["n"]))
            out["tags"] = sorted(out["tags"] or [])
        return out
    if isinstance(j, list):
        return [canon_nf(x) for x in j]
    return j


def nf_diff(a: Any, b: Any, where: str = "") -> Optional[str]:
    """First differing path between two normal forms, or None."""
    if type(a) is not type(b) and not (isinstance(a, (int, bool)) and isinstance(b, (int, bool)) and a == b):
        return f"{where}: {a!r} != {b!r}"[:300]
    if isinstance(a, dict):
        for k in sorted(set(a) | set(b), key=str):
            if k not in a or k not in b:
                return f"{where}.{k}: only on one side"
            d = nf_diff(a[k], b[k], f"{where}.{k}")
            if d:
                return d
        return None
    if isinstance(a, list):
        if len(a) != len(b):
            return f"{where}: length {len(a)} != {len(b)}"
        for i, (x, y) in enumerate(zip(a, b)):
            d = nf_diff(x, y, f"{where}[{i}]")
            if d:
                return d
        return None
    return None if a == b else f"{where}: {a!r} != {b!r}"[:300]


# ----------------------------------------------------------------------------------------------
# probing the library
# ----------------------------------------------------------------------------------------------
class AnyDict(dict):
    """A logic table that implements every name (so that missing implementations never interfere)."""

    def __init__(self, make):
        super().__init__()
        self._make = make

    def __contains__(self, k):
        return isinstance(k, str)

    def get(self, k, default=None):
        return self._make(k) if isinstance(k, str) else default

    def __getitem__(self, k):
        return self._make(k)


def any_logic() -> MachineLogic:
    lg = MachineLogic()
    lg.actions = AnyDict(lambda k: (lambda *a, **kw: None))
    lg.guards = AnyDict(lambda k: (lambda *a, **kw: k != "gnever"))
    lg.services = AnyDict(lambda k: (lambda *a, **kw: "ok"))
    return lg


def events_of(cfg: Any) -> List[str]:
    evs: List[str] = []

    def walk(n):
        if not isinstance(n, dict):
            return
        on = n.get("on")
        if isinstance(on, dict):
            for k in on:
                if isinstance(k, str) and k and k not in evs and not k.endswith("*"):
                    evs.append(k)
        sts = n.get("states")
        if isinstance(sts, dict):
            for c in sts.values():
                walk(c)

    walk(cfg)
    return evs


def classify(ex: BaseException) -> str:
    return "lib" if isinstance(ex, XStateMachineError) else "raw"


class ProbeTimeout(BaseException):
    pass


def _alarm(_sig, _frm):
    raise ProbeTimeout()


def probe(cfg: Any, events: Optional[List[str]] = None, rounds: int = 2, want_nf: bool = True, budget_s: int = 6) -> dict:
    """create -> (normal form) -> start -> sends.  Never raises.  cls: ok / lib / raw / hang."""
    import signal

    out: Dict[str, Any] = {"stage": "", "cls": "ok", "exc": "", "msg": "", "nf": None, "config": None}
    interp = None
    old = signal.signal(signal.SIGALRM, _alarm)
    signal.alarm(budget_s)
    # the sync engine's timer threads are parked under virtual time: an `after` of the machine must not fire
    # because the probe happens to run slowly on a loaded host
    from . import vthreads
    vctl = vthreads.Controller()
    patch = vthreads.patched(vctl)
    patch.__enter__()
    try:
        out["stage"] = "create"
        machine = create_machine(cfg, logic=any_logic())
        if want_nf:
            out["stage"] = "resolve"
            out["nf"] = nf_lib(machine)
        out["stage"] = "start"
        interp = SyncInterpreter(machine)
        interp.start()
        out["stage"] = "send"
        evs = events if events is not None else events_of(cfg)
        for _ in range(rounds):
            for e in evs:
                interp.send(e)
        out["stage"] = "done"
        out["config"] = sorted(s.id for s in interp._active_state_nodes)
    except ProbeTimeout:
        out["cls"] = "hang"
        out["exc"] = "ProbeTimeout"
        out["msg"] = f"no return within {budget_s}s"
    except BaseException as ex:  # noqa: BLE001 - the class of whatever escapes is the observation
        if isinstance(ex, (KeyboardInterrupt, SystemExit)):
            raise
        out["cls"] = classify(ex)
        out["exc"] = type(ex).__name__
        out["msg"] = str(ex)[:300]
    finally:
        signal.alarm(0)
        signal.signal(signal.SIGALRM, old)
        if interp is not None:
            try:
                interp.stop()
            except BaseException:  # noqa: BLE001
                pass
        try:
            vctl.drain()
        except BaseException:  # noqa: BLE001
            pass
        patch.__exit__(None, None, None)
    return out


FRONT_CFG = """SPECIFICATION Spec
CONSTANTS
  Mode = "{mode}"
  RewriteSets = {rsets}
  Stride = {stride}
  Offset = {offset}
ACTION_CONSTRAINT Emit
CHECK_DEADLOCK FALSE
"""


def rsets_tla(rsets: List[frozenset]) -> str:
    return "{" + ", ".join("{" + ", ".join(f'"{r}"' for r in sorted(rs)) + "}" for rs in rsets) + "}"


def count_nodes(v: Any) -> int:
    if isinstance(v, dict):
        return 1 + sum(count_nodes(x) for x in v.values())
    if isinstance(v, list):
        return 1 + sum(count_nodes(x) for x in v)
    return 1


def run_front(configs: List[dict], mode: str, rsets: List[frozenset], workdir: str, *, workers=2, timeout=1700, sink=None,
              stride: int = 1, offset: int = 0):
    os.makedirs(workdir, exist_ok=True)
    write_fbatch(os.path.join(workdir, "FBatch.tla"), configs)
    cfg = FRONT_CFG.format(mode=mode, rsets=rsets_tla(rsets or [frozenset()]), stride=max(1, stride), offset=offset)
    lines: List[dict] = []
    res = tla.run_tlc("MCFrontend", cfg, workdir, workers=workers, timeout=timeout, json_sink=sink or lines.append)
    return res, lines
