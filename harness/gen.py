"""Machine families (DESIGN section 7): JSON configs plus the names their logic must bind."""
from __future__ import annotations

import itertools
import random
from typing import Any, Dict, Iterator, List, Optional, Tuple

Config = Dict[str, Any]


class Spec:
    """A generated machine: config + logic names (all marker actions / oracle guards)."""

    def __init__(self, config: Config, family: str, label: str) -> None:
        self.config = config
        self.family = family
        self.label = label
        self.actions: List[str] = []
        self.guards: List[str] = []
        #: names the logic deliberately does NOT implement (abort faults)
        self.missing: List[str] = []
        #: explicit event alphabet to explore (None: every declared event + one undeclared)
        self.events: Optional[List[str]] = None
        collect_names(config, self.actions, self.guards)


def _as_list(x):
    if x is None:
        return []
    return x if isinstance(x, list) else [x]


BUILTIN_PREFIX = ("xstate.",)


def _guard_atoms(g, out: List[str]) -> None:
    if g is None:
        return
    if isinstance(g, str):
        if g not in out:
            out.append(g)
        return
    t = g.get("type")
    if t in ("and", "or", "not"):
        kids = g.get("children") or (g.get("params") or {}).get("guards") or (g.get("params") or {}).get("children") or []
        if not kids and isinstance(g.get("params"), dict) and g["params"].get("guard") is not None:
            kids = [g["params"]["guard"]]
        for k in kids:
            _guard_atoms(k, out)
        return
    if t == "stateIn":
        return
    if t not in out:
        out.append(t)


def collect_names(node: Config, actions: List[str], guards: List[str]) -> None:
    def acts(x):
        for a in _as_list(x):
            n = a if isinstance(a, str) else a.get("type")
            if n and not n.startswith(BUILTIN_PREFIX) and n not in actions:
                actions.append(n)
            if isinstance(a, dict) and n == "xstate.choose":
                for br in (a.get("params") or {}).get("conditions", []):
                    _guard_atoms(br.get("guard", br.get("cond")), guards)
                    acts(br.get("actions"))

    def trans(x):
        for t in _as_list(x):
            if isinstance(t, dict):
                acts(t.get("actions"))
                _guard_atoms(t.get("guard", t.get("cond")), guards)

    acts(node.get("entry"))
    acts(node.get("exit"))
    for _k, v in (node.get("on") or {}).items():
        trans(v)
    trans(node.get("always"))
    trans(node.get("onDone"))
    for _k, v in (node.get("after") or {}).items():
        trans(v)
    for inv in _as_list(node.get("invoke")):
        if isinstance(inv, dict):
            trans(inv.get("onDone"))
            trans(inv.get("onError"))
    for c in (node.get("states") or {}).values():
        if isinstance(c, dict):
            collect_names(c, actions, guards)


# ---------------------------------------------------------------------------------------
# Tree shapes

class Node:
    def __init__(self, key: str, kind: str) -> None:
        self.key = key
        self.kind = kind  # atomic compound parallel final history
        self.kids: List["Node"] = []
        self.parent: Optional["Node"] = None
        self.initial: Optional[str] = None
        self.hkind = "shallow"
        self.hdefault: Optional["Node"] = None

    def add(self, n: "Node") -> "Node":
        n.parent = self
        self.kids.append(n)
        return n

    @property
    def path(self) -> List[str]:
        return (self.parent.path if self.parent else []) + [self.key]

    def id(self, root_id: str) -> str:
        return ".".join(self.path)

    def walk(self) -> Iterator["Node"]:
        yield self
        for k in self.kids:
            yield from k.walk()


def random_tree(rng: random.Random, root_id: str, n_states: int, *, p_parallel=0.3, p_final=0.2,
                p_history=0.25, max_depth=3) -> Node:
    root = Node(root_id, "compound")
    nodes = [root]
    names = iter("abcdefghijklmnopqrstuvwxyz")
    while len(nodes) - 1 < n_states:
        cands = [n for n in nodes if n.kind in ("compound", "parallel") and len(n.path) <= max_depth]
        par = rng.choice(cands)
        r = rng.random()
        if r < 0.45 and len(par.path) < max_depth:
            kind = "parallel" if rng.random() < p_parallel else "compound"
        else:
            kind = "atomic"
        key = next(names)
        if par.kids and rng.random() < 0.3:
            # sibling keys that are textual prefixes of one another (door / doorbell)
            cand = rng.choice(par.kids).key + key
            if all(k.key != cand for k in par.kids):
                key = cand
        nodes.append(par.add(Node(key, kind)))
    # fix up: containers need children; decorate leaves
    for n in list(nodes):
        if n.kind in ("compound", "parallel") and not n.kids:
            n.kind = "atomic"
    for n in list(nodes):
        if n.kind == "atomic" and n.parent is not None:
            sibs = [k for k in n.parent.kids if k is not n and k.kind not in ("history",)]
            r = rng.random()
            if r < p_history and sibs and not any(k.kind == "history" and k is not n for k in n.parent.kids):
                n.kind = "history"
                n.hkind = rng.choice(["shallow", "deep"])
                if rng.random() < 0.4:
                    n.hdefault = rng.choice(sibs)
            elif r < p_history + p_final and n.parent.kind == "compound" and len(sibs) >= 1:
                n.kind = "final"
    for n in nodes:
        if n.kind == "compound":
            real = [k for k in n.kids if k.kind != "history"]
            if not real:
                # only history children: demote them
                for k in n.kids:
                    k.kind = "atomic"
                real = n.kids
            n.initial = rng.choice(real).key
        if n.kind == "parallel":
            real = [k for k in n.kids if k.kind != "history"]
            if not real:
                for k in n.kids:
                    k.kind = "atomic"
    return root


def tree_to_config(root: Node, *, markers=True, double=False) -> Config:
    """double: entry/exit lists carry two marker actions (so that 'the remainder of the list' exists)."""
    rid = root.key

    def conv(n: Node) -> Config:
        c: Config = {}
        nid = ".".join(n.path)
        if n is root:
            c["id"] = rid
        if n.kind == "final":
            c["type"] = "final"
        elif n.kind == "history":
            c["type"] = "history"
            c["history"] = n.hkind
            if n.hdefault is not None:
                c["target"] = "#" + ".".join(n.hdefault.path)
        elif n.kind == "parallel":
            c["type"] = "parallel"
        if n.kind == "compound" and n.initial:
            c["initial"] = n.initial
        if markers and n.kind != "history":
            c["entry"] = ["en:" + nid] + (["en:" + nid + "#2"] if double else [])
            c["exit"] = ["ex:" + nid] + (["ex:" + nid + "#2"] if double else [])
        if n.kids:
            c["states"] = {k.key: conv(k) for k in n.kids}
        return c

    return conv(root)


def find(config: Config, path: List[str]) -> Config:
    c = config
    for k in path[1:]:
        c = c["states"][k]
    return c


def add_complete_transitions(root: Node, config: Config, *, rng: Optional[random.Random] = None,
                             density: float = 1.0, reenter_twins=True, targetless=True,
                             include_root_target=False, double=False) -> None:
    """One transition per ordered (source, target) pair, each on its own event."""
    nodes = list(root.walk())
    srcs = [n for n in nodes if n.kind not in ("history", "final")]
    k = 0
    for s in srcs:
        on = find(config, s.path).setdefault("on", {})
        for t in nodes:
            if t is root and not include_root_target:
                continue
            if rng is not None and rng.random() > density:
                continue
            k += 1
            ev = f"e{k}"
            tgt = "#" + ".".join(t.path)
            on[ev] = {"target": tgt, "actions": [f"tr:{ev}"] + ([f"tr:{ev}#2"] if double else [])}
            related = t is s or s in _anc(t) or t in _anc(s)
            if reenter_twins and related and t.kind != "history":
                k += 1
                ev2 = f"e{k}"
                on[ev2] = {"target": tgt, "actions": [f"tr:{ev2}"], "reenter": True}
        if targetless:
            k += 1
            ev = f"e{k}"
            on[ev] = {"actions": [f"tr:{ev}"]}


def _anc(n: Node) -> List[Node]:
    out = []
    p = n.parent
    while p is not None:
        out.append(p)
        p = p.parent
    return out


def family_T_random(seed: int, count: int, *, min_states=3, max_states=7, density=1.0,
                    with_on_done=True, double=False) -> List[Spec]:
    rng = random.Random(seed)
    out = []
    for i in range(count):
        n = rng.randint(min_states, max_states)
        root = random_tree(rng, "m", n)
        cfg = tree_to_config(root, double=double)
        add_complete_transitions(root, cfg, rng=rng, density=density, double=double)
        if with_on_done:
            for nd in root.walk():
                if nd.kind in ("compound", "parallel") and nd is not root and rng.random() < 0.5:
                    sibs = [k for k in nd.parent.kids if k is not nd and k.kind != "history"]
                    c = find(cfg, nd.path)
                    nid = ".".join(nd.path)
                    if sibs and rng.random() < 0.7:
                        c["onDone"] = {"target": "#" + ".".join(rng.choice(sibs).path), "actions": [f"tr:done:{nid}"]}
                    else:
                        c["onDone"] = {"actions": [f"tr:done:{nid}"]}
        out.append(Spec(cfg, "T", f"T-rand-{seed}-{i}"))
    return out


# ---------------------------------------------------------------------------------------
# Family H: history under compound / parallel parents

def _leafy(rng: random.Random, key: str, depth: int) -> Node:
    """A child of the history parent: atomic, compound with leaves, or nested compound."""
    r = rng.random()
    if r < 0.3 or depth <= 0:
        return Node(key, "atomic")
    if depth > 1 and r < 0.5:
        # a parallel state BELOW the history parent: deep history has to restore several leaves
        # that share an ancestor strictly inside the parent
        n = Node(key, "parallel")
        for i in range(2):
            reg = n.add(Node(f"{key}{'pq'[i]}", "compound"))
            for j in range(2):
                reg.add(Node(f"{key}{'pq'[i]}{j + 1}", "atomic"))
            reg.initial = reg.kids[0].key
        return n
    n = Node(key, "compound")
    for i in range(rng.randint(2, 3)):
        k = f"{key}{i + 1}"
        if depth > 1 and rng.random() < 0.35:
            n.add(_leafy(rng, k, depth - 1))
        else:
            n.add(Node(k, "atomic"))
    n.initial = n.kids[0].key
    return n


def family_H(seed: int, count: int, *, density=0.35) -> List[Spec]:
    rng = random.Random(seed)
    out = []
    for i in range(count):
        root = Node("m", "compound")
        outside = root.add(Node("o", "atomic"))
        holder = root
        if rng.random() < 0.4:
            holder = root.add(Node("w", "compound"))
        pk = rng.choice(["compound", "parallel"])
        p = holder.add(Node("p", pk))
        if holder is not root:
            holder.initial = "p"
        for j in range(rng.randint(2, 3)):
            p.add(_leafy(rng, "xyz"[j], 2))
        hk = rng.choice(["shallow", "deep", "both"])
        for kind in (["shallow", "deep"] if hk == "both" else [hk]):
            h = p.add(Node("h" + kind[0], "history"))
            h.hkind = kind
            if rng.random() < 0.35:
                real = [k for k in p.kids if k.kind != "history"]
                cand = rng.choice(real)
                if cand.kids and rng.random() < 0.5:
                    cand = rng.choice(cand.kids)
                h.hdefault = cand
        if pk == "compound":
            p.initial = p.kids[0].key
        root.initial = "o"
        cfg = tree_to_config(root)
        add_complete_transitions(root, cfg, rng=rng, density=density)
        out.append(Spec(cfg, "H", f"H-{seed}-{i}"))
    # one machine whose parallel regions use the SAME local keys (idle / busy): only the full id tells their
    # leaves apart, which is what every ordering rule has to go by
    root = Node("m", "compound")
    root.add(Node("o", "atomic"))
    p = root.add(Node("p", "parallel"))
    for j in range(3):
        r = p.add(Node(f"r{j + 1}", "compound"))
        r.add(Node("idle", "atomic"))
        r.add(Node("busy", "atomic"))
        r.initial = "idle"
    h = p.add(Node("hd", "history"))
    h.hkind = "deep"
    root.initial = "o"
    cfg = tree_to_config(root)
    add_complete_transitions(root, cfg, rng=rng, density=max(density, 0.5))
    out.append(Spec(cfg, "H", f"H-{seed}-samekeys"))
    return out


# ---------------------------------------------------------------------------------------
# Family D: completion (final children, onDone at several levels, top-level finals, outputs)

def family_D(seed: int, count: int, *, density=0.35) -> List[Spec]:
    rng = random.Random(seed)
    out = []
    for i in range(count):
        root = Node("m", "compound")
        start = root.add(Node("s", "atomic"))
        root.initial = "s"
        top_final = root.add(Node("fin", "final"))
        ak = rng.choice(["compound", "parallel", "parallel"])
        a = root.add(Node("a", ak))

        def region(key: str, depth: int) -> Node:
            r = Node(key, "compound")
            r.add(Node(key + "w", "atomic"))
            if depth > 0 and rng.random() < 0.35:
                r.add(region(key + "n", depth - 1))
            r.add(Node(key + "f", "final"))
            if rng.random() < 0.3:
                r.add(Node(key + "g", "final"))
            r.initial = r.kids[0].key
            return r

        if ak == "parallel":
            rkeys = rng.choice([["r1", "r2", "r3"], ["r1", "r10", "r2"]])
            for j in range(rng.randint(2, 3)):
                a.add(region(rkeys[j], 1))
            if rng.random() < 0.3:
                h = a.add(Node("h", "history"))
                h.hkind = rng.choice(["shallow", "deep"])
        else:
            a.add(Node("aw", "atomic"))
            a.add(region("an", 1))
            a.add(Node("af", "final"))
            a.initial = "aw"
        cfg = tree_to_config(root)
        add_complete_transitions(root, cfg, rng=rng, density=density)
        # onDone at every compound/parallel level: absent / targetless / to sibling / to top final / guarded
        guards_used = False
        for nd in root.walk():
            if nd.kind in ("compound", "parallel") and nd is not root:
                c = find(cfg, nd.path)
                nid = ".".join(nd.path)
                r = rng.random()
                sibs = [k for k in nd.parent.kids if k is not nd and k.kind != "history"]
                if r < 0.2:
                    continue
                t: Dict[str, Any] = {"actions": [f"tr:done:{nid}"]}
                if r < 0.45 or (nd is a and r < 0.6):
                    pass
                elif r < 0.8 and sibs:
                    t["target"] = "#" + ".".join(rng.choice(sibs).path)
                else:
                    t["target"] = "#m.fin"
                if rng.random() < 0.2:
                    t["guard"] = "gd"
                    guards_used = True
                c["onDone"] = t
        # outputs
        if rng.random() < 0.6:
            find(cfg, top_final.path)["output"] = "out_fin"
        if rng.random() < 0.3:
            cfg["output"] = "out_machine"
        for nd in root.walk():
            if nd.kind == "final" and nd is not top_final and rng.random() < 0.5:
                find(cfg, nd.path)["output"] = "out_" + nd.key
        out.append(Spec(cfg, "D", f"D-{seed}-{i}"))
    return out


# ---------------------------------------------------------------------------------------
# Family S: selection layouts

GUARD_POOL: List[Any] = [
    None, "g1", "g2", {"type": "g1"},
    {"type": "and", "children": ["g1", "g2"]},
    {"type": "or", "params": {"guards": ["g1", "g2"]}},
    {"type": "not", "params": {"guard": "g1"}},
    {"type": "gp", "params": {"k": "a"}}, {"type": "gp", "params": {"k": "b"}},
    {"type": "and", "children": [{"type": "gp", "params": {"k": "a"}}, "g2"]},
]


def family_S(seed: int, count: int, *, big=False) -> List[Spec]:
    rng = random.Random(seed)
    out = []
    for i in range(count):
        root = Node("m", "compound")
        chain_depth = rng.randint(1, 3 if not big else 4)
        cur = root
        for d in range(chain_depth - 1):
            cur = cur.add(Node("c" + str(d + 1), "compound"))
            if cur.parent is not None:
                cur.parent.initial = cur.key
        use_par = rng.random() < (0.6 if not big else 0.8)
        leaves: List[Node] = []
        if use_par:
            par = cur.add(Node("p", "parallel"))
            cur.initial = "p"
            # region keys that are textual prefixes of one another (r1 / r10) half of the time
            rkeys = rng.choice([["r1", "r2", "r3"], ["r1", "r10", "r2"]])
            for j in range(rng.randint(2, 3)):
                r = par.add(Node(rkeys[j], "compound"))
                for k2 in range(2 if not big else 3):
                    leaves.append(r.add(Node(f"l{j + 1}{k2 + 1}", "atomic")))
                r.initial = r.kids[0].key
        else:
            for k2 in range(3):
                leaves.append(cur.add(Node("l" + str(k2 + 1), "atomic")))
            cur.initial = cur.kids[0].key
        if use_par or rng.random() < 0.5:
            other = root.add(Node("z", "atomic"))
            if not root.initial:
                root.initial = root.kids[0].key
        if not root.initial:
            root.initial = root.kids[0].key
        cfg = tree_to_config(root)
        nodes = [n for n in root.walk()]
        tcount = 0
        for ev in ("E1", "E2"):
            for n in nodes:
                if rng.random() > (0.55 if n.kind == "atomic" else 0.45):
                    continue
                ncand = rng.randint(1, 3)
                cands: List[Any] = []
                for _c in range(ncand):
                    tcount += 1
                    t: Dict[str, Any] = {"actions": [f"tr:{ev}:{tcount}"]}
                    g = rng.choice(GUARD_POOL)
                    if g is not None:
                        t["guard" if rng.random() < 0.7 else "cond"] = g
                    r = rng.random()
                    if r < 0.35:
                        pass  # targetless
                    elif r < 0.8:
                        # sibling leaf in the same region / same parent
                        sibs = [k for k in (n.parent.kids if n.parent else []) if k.kind != "history"]
                        if n.kind == "atomic" and sibs:
                            t["target"] = "#" + ".".join(rng.choice(sibs).path)
                        else:
                            t["target"] = "#" + ".".join(rng.choice(leaves).path)
                    else:
                        t["target"] = "#" + ".".join(rng.choice(nodes[1:]).path)
                        if rng.random() < 0.3:
                            t["reenter"] = True
                    cands.append(t)
                if rng.random() < 0.08:
                    find(cfg, n.path).setdefault("on", {})[ev] = None      # forbidden
                elif rng.random() < 0.1:
                    find(cfg, n.path).setdefault("on", {})[ev] = cands + [None] if False else cands
                else:
                    find(cfg, n.path).setdefault("on", {})[ev] = cands if len(cands) > 1 else cands[0]
        # a few always transitions guarded by g2 and raise actions to create follow-ups
        if rng.random() < 0.3 and leaves:
            lf = rng.choice(leaves)
            sibs = [k for k in lf.parent.kids if k is not lf]
            if sibs:
                tcount += 1
                find(cfg, lf.path)["always"] = {"target": "#" + ".".join(rng.choice(sibs).path), "guard": "g2",
                                                "actions": [f"tr:always:{tcount}"]}
        # two regions whose eventless transitions are enabled in the SAME microstep, the first (by id order)
        # leaving the whole parallel state, which makes the second one stale before it is executed
        if use_par and rng.random() < 0.3:
            regs = sorted(par.kids, key=lambda n: ".".join(n.path))
            ra, rb = regs[0], regs[1]
            la, lb = ra.kids[0], rb.kids[0]
            # (only when the machine has no other eventless transition: two of them chasing each other would spin
            #  for maxIterations microsteps on both sides)
            if not any("always" in find(cfg, n.path) for n in nodes):
                tcount += 1
                find(cfg, la.path)["always"] = {"target": "#m.z", "guard": "g1", "actions": [f"tr:always:{tcount}"]}
                tcount += 1
                find(cfg, lb.path)["always"] = {"target": "#" + ".".join(rb.kids[1].path), "guard": "g1",
                                                "actions": [f"tr:always:{tcount}"]}
        out.append(Spec(cfg, "S", f"S-{seed}-{i}"))
    return out


# ---------------------------------------------------------------------------------------
# Family F: machines whose logic leaves some actions unimplemented (aborting errors)

def _initial_path_ids(cfg: Config) -> set:
    """State ids entered by start() (default descent from the root)."""
    out = set()

    def go(node: Config, nid: str) -> None:
        out.add(nid)
        st = node.get("states") or {}
        if node.get("type") == "parallel":
            for k, c in st.items():
                if c.get("type") != "history":
                    go(c, nid + "." + k)
        elif st and node.get("initial") in st:
            go(st[node["initial"]], nid + "." + node["initial"])

    go(cfg, cfg["id"])
    return out


def _default_children_ids(cfg: Config) -> set:
    """Ids of states that are the initial child of a compound state or a region of a parallel state."""
    out = set()

    def go(node: Config, nid: str) -> None:
        st = node.get("states") or {}
        for k, c in st.items():
            cid = nid + "." + k
            if node.get("type") == "parallel":
                if c.get("type") != "history":
                    out.add(cid)
            elif node.get("initial") == k:
                out.add(cid)
            go(c, cid)

    go(cfg, cfg["id"])
    return out


def family_F(seed: int, count: int, *, min_states=4, max_states=7) -> List[Spec]:
    """T machines in which 1-2 marker actions (entry/exit/transition) have no implementation.
    create_machine() and start() accept them: the missing entry actions are kept off the initial
    path, and are biased towards states reached by DEFAULT DESCENT (initial children, regions),
    which is where a half-entered target has to be rolled back."""
    rng = random.Random(seed)
    out = []
    base = family_T_random(seed, count, min_states=min_states, max_states=max_states, density=0.7)
    for i, sp in enumerate(base):
        # a machine whose initial top-level state is final completes in start() and exercises nothing
        tops = sp.config.get("states", {})
        if tops.get(sp.config.get("initial"), {}).get("type") == "final":
            alive = [k for k, v in tops.items() if v.get("type") not in ("final", "history")]
            if alive:
                sp.config["initial"] = alive[0]
        init_ids = _initial_path_ids(sp.config)
        dflt = _default_children_ids(sp.config)
        en_default = [a for a in sp.actions if a.startswith("en:") and a[3:] in dflt and a[3:] not in init_ids]
        en_other = [a for a in sp.actions if a.startswith("en:") and a[3:] not in init_ids and a not in en_default]
        ex = [a for a in sp.actions if a.startswith("ex:")]
        tr = [a for a in sp.actions if a.startswith("tr:")]
        # exit actions of the states active right after start(): the first external transition aborts in its exit phase
        ex_init = [a for a in ex if a[3:] in init_ids and a[3:] != sp.config["id"]]
        pools = [p for p in (en_default, en_default, en_other, ex, ex_init, tr) if p]
        sp.missing = sorted({rng.choice(rng.choice(pools)) for _ in range(rng.choice([1, 2]))})
        sp.family = "F"
        sp.label = f"F-{seed}-{i}"
        out.append(sp)
    return out


# ---------------------------------------------------------------------------------------
# Family R: reactions -- raise / assign in transition, entry and exit actions, finals, small bound

def family_R(seed: int, count: int) -> List[Spec]:
    rng = random.Random(seed)
    out = []
    evs = ["E1", "E2", "E3"]
    for i in range(count):
        root = Node("m", "compound")
        use_par = rng.random() < 0.5
        leaves: List[Node] = []
        if use_par:
            par = root.add(Node("p", "parallel"))
            root.initial = "p"
            for j in range(2):
                r = par.add(Node("r" + str(j + 1), "compound"))
                for k2 in range(2):
                    leaves.append(r.add(Node(f"l{j + 1}{k2 + 1}", "atomic")))
                if rng.random() < 0.75:
                    r.add(Node(f"f{j + 1}", "final"))
                r.initial = r.kids[0].key
        else:
            for k2 in range(3):
                leaves.append(root.add(Node("l" + str(k2 + 1), "atomic")))
            root.initial = "l1"
        fin = root.add(Node("fin", "final"))
        other = root.add(Node("z", "atomic"))
        cfg = tree_to_config(root)
        cfg["context"] = {"k": 0}
        cfg["maxIterations"] = rng.choice([3, 4, 6])
        nodes = [n for n in root.walk()]
        tcount = 0

        def extra_actions() -> List[Any]:
            acts: List[Any] = []
            r = rng.random()
            if r < 0.35:
                acts.append({"type": "xstate.raise", "params": {"event": rng.choice(evs)}})
            elif r < 0.55:
                acts.append({"type": "xstate.assign", "params": {"assignment": {"k": rng.choice([1, 2])}}})
            return acts

        for ev in evs:
            for n in nodes:
                if n.kind in ("final", "history") or rng.random() > 0.5:
                    continue
                tcount += 1
                t: Dict[str, Any] = {"actions": [f"tr:{ev}:{tcount}"] + extra_actions()}
                if rng.random() < 0.3:
                    t["guard"] = rng.choice(["g1", "g2"])
                r = rng.random()
                cands = [x for x in nodes if x is not root and x.kind != "history"]
                region_finals = [x for x in nodes if x.kind == "final" and x is not fin]
                if r < 0.2:
                    pass
                elif r < 0.3:
                    t["target"] = "#m.fin"
                elif r < 0.55 and region_finals:
                    # completes a region: the done event competes with whatever the actions raised
                    t["target"] = "#" + ".".join(rng.choice(region_finals).path)
                else:
                    t["target"] = "#" + ".".join(rng.choice(cands).path)
                find(cfg, n.path).setdefault("on", {})[ev] = t
        # eventless transitions in several regions at once (stale / conflicting winners)
        for n in leaves:
            if rng.random() < 0.3:
                tcount += 1
                outside = rng.random() < 0.5
                tgt = rng.choice([fin, other]) if outside else rng.choice([k for k in n.parent.kids if k is not n] or [n])
                find(cfg, n.path)["always"] = {"target": "#" + ".".join(tgt.path), "guard": rng.choice(["g1", "g2"]),
                                               "actions": [f"tr:always:{tcount}"]}
        for n in nodes:
            if n.kind == "atomic" and rng.random() < 0.25:
                find(cfg, n.path)["entry"] = find(cfg, n.path)["entry"] + extra_actions()
            if n.kind == "atomic" and rng.random() < 0.15:
                find(cfg, n.path)["exit"] = find(cfg, n.path)["exit"] + extra_actions()
        if use_par and rng.random() < 0.6:
            tcount += 1
            find(cfg, ["m", "p"])["onDone"] = {"target": rng.choice(["#m.z", "#m.fin"]),
                                               "actions": [f"tr:done:{tcount}"] + extra_actions()}
        if rng.random() < 0.4:
            find(cfg, fin.path)["output"] = "out_fin"
        out.append(Spec(cfg, "R", f"R-{seed}-{i}"))
    return out


# ---------------------------------------------------------------------------------------
# Family E: event descriptors (C20)

E_TYPES = ["a", "b", "a.a", "a.b", "b.a", "a.b.a", "a.b.b", "a.a.b", "ab", "a.bb",
           "done.state.zz", "error.platform.zz", "after.5.zz", "xstate.init", "done", "done.invoke.q"]
E_KEYS = ["a", "b", "a.b", "a.b.a", "a.*", "a.b.*", "b.*", "*", "ab", "done.state.zz", "done.*", "xstate.*",
          "error.platform.zz", "a.a.*"]


def family_E(seed: int, count: int, *, exhaustive_small=False) -> List[Spec]:
    """Two-level machines: child with a subset of descriptor keys, parent with another subset, optional
    guards on the more specific candidates, some keys declared null (forbidden)."""
    rng = random.Random(seed)
    out = []
    for i in range(count):
        root = Node("m", "compound")
        p = root.add(Node("p", "compound"))
        c1 = p.add(Node("c", "atomic"))
        c2 = p.add(Node("d", "atomic"))
        p.initial = "c"
        root.initial = "p"
        cfg = tree_to_config(root)
        k = 0
        for n, nkeys in ((c1, rng.randint(2, 6)), (p, rng.randint(1, 5)), (root, rng.randint(0, 2))):
            keys = rng.sample(E_KEYS, nkeys)
            rng.shuffle(keys)
            on = find(cfg, n.path).setdefault("on", {})
            for key in keys:
                r = rng.random()
                if r < 0.12:
                    on[key] = None
                    continue
                cands = []
                for _ in range(1 if r < 0.75 else 2):
                    k += 1
                    t: Dict[str, Any] = {"actions": [f"tr:{n.key}:{k}"]}
                    if rng.random() < 0.3:
                        t["guard"] = rng.choice(["g1", "g2"])
                    if rng.random() < 0.15:
                        t["target"] = "#m.p.d" if n is c1 else "#m.p.c"
                    cands.append(t)
                on[key] = cands if len(cands) > 1 else cands[0]
        # way back so that both leaves are explored
        find(cfg, c2.path).setdefault("on", {})["back"] = {"target": "#m.p.c", "actions": ["tr:back"]}
        sp = Spec(cfg, "E", f"E-{seed}-{i}")
        sp.events = E_TYPES + ["back", "zz"]
        out.append(sp)
    return out


# ---------------------------------------------------------------------------------------
# Family G: guard expressions (C06)

G_ATOMS: List[Any] = ["ga", "gb", {"type": "ga"}, {"type": "gp", "params": {"k": "a"}},
                      {"type": "stateIn", "params": {"state": "#m.p.c"}},
                      {"type": "stateIn", "params": {"value": "p.d"}},
                      {"type": "stateIn", "params": {"state": "m.q.u"}},
                      # active NON-leaf states: a compound state, a region by partial path, the root
                      {"type": "stateIn", "params": {"state": "#m.p"}},
                      {"type": "stateIn", "params": {"state": "q"}},
                      {"type": "stateIn", "params": {"state": "#m"}},
                      "gmissing"]


def _gexpr(rng: random.Random, depth: int) -> Any:
    if depth <= 0 or rng.random() < 0.35:
        return rng.choice(G_ATOMS)
    op = rng.choice(["and", "or", "not"])
    spelling = rng.choice(["children", "params.guards", "params.children"])
    if op == "not":
        kid = _gexpr(rng, depth - 1)
        sp = rng.choice(["children", "params.guards", "params.guard"])
        if sp == "children":
            return {"type": "not", "children": [kid]}
        if sp == "params.guards":
            return {"type": "not", "params": {"guards": [kid]}}
        return {"type": "not", "params": {"guard": kid}}
    kids = [_gexpr(rng, depth - 1) for _ in range(rng.randint(2, 3))]
    if spelling == "children":
        return {"type": op, "children": kids}
    if spelling == "params.guards":
        return {"type": op, "params": {"guards": kids}}
    return {"type": op, "params": {"children": kids}}


def family_G(seed: int, count: int, *, depth=2) -> List[Spec]:
    """Fixed two-level template (parallel q beside compound p so stateIn has something to look at):
    child candidates [guarded -> X, guarded -> Y, unguarded fallback], parent handler, a choose action."""
    rng = random.Random(seed)
    out = []
    for i in range(count):
        root = Node("m", "parallel")
        p = root.add(Node("p", "compound"))
        c = p.add(Node("c", "atomic"))
        d = p.add(Node("d", "atomic"))
        x = p.add(Node("x", "atomic"))
        p.initial = "c"
        q = root.add(Node("q", "compound"))
        u = q.add(Node("u", "atomic"))
        v = q.add(Node("v", "atomic"))
        q.initial = "u"
        cfg = tree_to_config(root)
        k = 0

        def trans(target, guard, key="guard"):
            nonlocal k
            k += 1
            t: Dict[str, Any] = {"actions": [f"tr:{k}"]}
            if target:
                t["target"] = target
            if guard is not None:
                t[key] = guard
            return t

        key = lambda: rng.choice(["guard", "guard", "cond"])
        con = find(cfg, c.path).setdefault("on", {})
        con["E"] = [trans("#m.p.d", _gexpr(rng, depth), key()), trans("#m.p.x", _gexpr(rng, depth), key()), trans(None, None)]
        con["F"] = [trans("#m.p.x", _gexpr(rng, depth), key())]
        con["EM"] = [trans("#m.p.d", "gmissing"), trans(None, None)]
        find(cfg, p.path).setdefault("on", {})["F"] = [trans("#m.p.d", _gexpr(rng, depth - 1), key()), trans(None, None)]
        find(cfg, p.path)["on"]["BACK"] = trans("#m.p.c", None)
        find(cfg, q.path).setdefault("on", {})["T"] = trans("#m.q.v", None)
        find(cfg, v.path).setdefault("on", {})["T"] = trans("#m.q.u", None)
        # guards inside a choose action
        k += 1
        find(cfg, d.path).setdefault("on", {})["C"] = {"actions": [{"type": "xstate.choose", "params": {"conditions": [
            {"guard": _gexpr(rng, depth - 1), "actions": [f"tr:ch:{k}:a"]},
            {"cond": _gexpr(rng, 0), "actions": [f"tr:ch:{k}:b"]},
            {"actions": [f"tr:ch:{k}:c"]}]}}, f"tr:after_choose:{k}"]}
        sp = Spec(cfg, "G", f"G-{seed}-{i}")
        sp.missing = ["gmissing"]
        out.append(sp)
    return out


# ---------------------------------------------------------------------------------------
# Family A: self-feeding chains (C13)

def family_A(seed: int, count: int) -> List[Spec]:
    rng = random.Random(seed)
    out = []
    kinds = ["always_ring", "always_chain", "self_raise", "raise_ring", "done_ring", "done_chain", "raise_mixed",
             "exit_raise", "always_raise_ring"]
    for i in range(count):
        kind = kinds[i % len(kinds)]
        M = rng.choice([2, 3, 5])
        L = rng.choice([M - 1, M, M + 1, 2])
        L = max(L, 1)
        at_start = rng.random() < 0.4
        st: Dict[str, Any] = {}
        raise_ = lambda e: {"type": "xstate.raise", "params": {"event": e}}
        ring0 = "s0"
        if kind in ("always_ring", "always_chain"):
            n = max(L, 2) if kind == "always_ring" else L + 1
            for j in range(n):
                c: Dict[str, Any] = {"entry": [f"en:m.s{j}"], "exit": [f"ex:m.s{j}"]}
                last = j == n - 1
                if kind == "always_ring" or not last:
                    c["always"] = {"target": f"#m.s{(j + 1) % n}", "actions": [f"tr:al{j}"]}
                c["on"] = {"PING": {"actions": [f"tr:ping{j}"]}}
                st[f"s{j}"] = c
        elif kind == "self_raise":
            st["s0"] = {"entry": ["en:m.s0"], "exit": ["ex:m.s0"],
                        "on": {"E": {"actions": ["tr:e", raise_("E")]}, "PING": {"actions": ["tr:ping"]}}}
        elif kind == "raise_ring":
            n = max(L, 2)
            st["s0"] = {"entry": ["en:m.s0"], "exit": ["ex:m.s0"], "on": {"PING": {"actions": ["tr:ping"]}}}
            for j in range(n):
                st["s0"]["on"][f"R{j}"] = {"actions": [f"tr:r{j}", raise_(f"R{(j + 1) % n}")]}
            st["s0"]["on"]["E"] = {"actions": ["tr:e", raise_("R0")]}
        elif kind in ("done_ring", "done_chain"):
            n = 1 if kind == "done_ring" else L + 1
            for j in range(n):
                nxt = f"#m.s{(j + 1) % n}" if kind == "done_ring" else (f"#m.s{j + 1}" if j < n - 1 else None)
                c = {"initial": "f", "entry": [f"en:m.s{j}"], "exit": [f"ex:m.s{j}"],
                     "states": {"f": {"type": "final", "entry": [f"en:m.s{j}.f"], "exit": [f"ex:m.s{j}.f"]}},
                     "on": {"PING": {"actions": [f"tr:ping{j}"]}}}
                if nxt:
                    c["onDone"] = {"target": nxt, "actions": [f"tr:dn{j}"], "reenter": True}
                st[f"s{j}"] = c
        elif kind == "raise_mixed":
            st["s0"] = {"entry": ["en:m.s0"], "exit": ["ex:m.s0"],
                        "on": {"E": {"actions": ["tr:e", raise_("N"), raise_("E")]}, "N": {"actions": ["tr:n"]},
                               "PING": {"actions": ["tr:ping"]}}}
        elif kind == "always_raise_ring":
            # the self-feeding raise sits in the EVENTLESS half of the macrostep
            st["s0"] = {"entry": ["en:m.s0"], "exit": ["ex:m.s0"],
                        "always": {"target": "#m.s1", "actions": ["tr:al", raise_("X")]},
                        "on": {"PING": {"actions": ["tr:ping0"]}}}
            st["s1"] = {"entry": ["en:m.s1"], "exit": ["ex:m.s1"],
                        "on": {"X": {"target": "#m.s0", "actions": ["tr:x"]}, "PING": {"actions": ["tr:ping1"]}}}
        elif kind == "exit_raise":
            st["s0"] = {"entry": ["en:m.s0"], "exit": ["ex:m.s0", raise_("E")],
                        "on": {"E": {"target": "#m.s0", "reenter": True, "actions": ["tr:e"]},
                               "PING": {"actions": ["tr:ping"]}}}
        states: Dict[str, Any] = {}
        if at_start or kind in ("self_raise", "raise_ring", "raise_mixed", "exit_raise"):
            initial = ring0
        else:
            initial = "idle"
            states["idle"] = {"entry": ["en:m.idle"], "exit": ["ex:m.idle"], "on": {"GO": {"target": "#m.s0", "actions": ["tr:go"]},
                                                                                    "PING": {"actions": ["tr:pingidle"]}}}
        states.update(st)
        if kind == "self_raise" and at_start:
            states["s0"]["entry"] = states["s0"]["entry"] + [raise_("E")]
        cfg = {"id": "m", "initial": initial, "maxIterations": M, "entry": ["en:m"], "exit": ["ex:m"], "states": states}
        sp = Spec(cfg, "A", f"A-{seed}-{i}-{kind}-M{M}-L{L}")
        out.append(sp)
    return out


# ---------------------------------------------------------------------------------------
# Family X: timers (after), slow actions; small machines, a fixed event vocabulary

def family_X(seed: int, count: int, *, race=False) -> List[Spec]:
    rng = random.Random(seed)
    out = []
    shapes = ["single", "equal_pair", "two_delays", "periodic", "named", "nested", "parallel", "slow_exit"]
    if race:
        shapes = shapes + ["start_race", "send_race"]
    for i in range(count):
        shape = shapes[i % len(shapes)]
        d1, d2 = rng.choice([(50, 80), (50, 50), (80, 50)])
        A: Dict[str, Any] = {"entry": ["en:m.A"], "exit": ["ex:m.A"], "on": {}}
        B: Dict[str, Any] = {"entry": ["en:m.B"], "exit": ["ex:m.B"], "on": {"BACK": {"target": "#m.A", "actions": ["tr:back"]}}}
        C: Dict[str, Any] = {"entry": ["en:m.C"], "exit": ["ex:m.C"], "on": {"BACK": {"target": "#m.A", "actions": ["tr:backc"]}}}
        delays = {}
        if shape == "single":
            A["after"] = {str(d1): {"target": "#m.B", "actions": ["tr:af1"]}}
        elif shape == "equal_pair":
            A["after"] = {str(d1): [{"target": "#m.B", "actions": ["tr:af1"], "guard": "ga"},
                                    {"target": "#m.C", "actions": ["tr:af2"]}]}
        elif shape == "two_delays":
            A["after"] = {str(d1): {"target": "#m.B", "actions": ["tr:af1"], **({"guard": "ga"} if rng.random() < 0.5 else {})},
                          str(d2 + 1): {"target": "#m.C", "actions": ["tr:af2"]}}
        elif shape == "periodic":
            A["after"] = {str(d1): {"target": "#m.A", "reenter": True, "actions": ["tr:tick"]}}
            B["after"] = {str(d2): {"target": "#m.A", "actions": ["tr:afb"]}}
        elif shape == "named":
            A["after"] = {"T_A": {"target": "#m.B", "actions": ["tr:af1"]}}
            delays["T_A"] = d1
        elif shape == "nested":
            A = {"initial": "a1", "entry": ["en:m.A"], "exit": ["ex:m.A"], "on": {},
                 "after": {str(d2 + 30): {"target": "#m.C", "actions": ["tr:afA"]}},
                 "states": {"a1": {"entry": ["en:m.A.a1"], "exit": ["ex:m.A.a1"],
                                   "after": {str(d1): {"target": "#m.A.a2", "actions": ["tr:af1"]}}},
                            "a2": {"entry": ["en:m.A.a2"], "exit": ["ex:m.A.a2"],
                                   "on": {"IN": {"target": "#m.A.a1", "actions": ["tr:in"]}}}}}
        elif shape == "parallel":
            A = {"type": "parallel", "entry": ["en:m.A"], "exit": ["ex:m.A"], "on": {},
                 "states": {"r1": {"initial": "x", "entry": ["en:m.A.r1"], "exit": ["ex:m.A.r1"],
                                   "states": {"x": {"entry": ["en:m.A.r1.x"], "exit": ["ex:m.A.r1.x"],
                                                    "after": {str(d1): {"target": "#m.A.r1.y", "actions": ["tr:af1"]}}},
                                              "y": {"entry": ["en:m.A.r1.y"], "exit": ["ex:m.A.r1.y"]}}},
                            "r2": {"initial": "u", "entry": ["en:m.A.r2"], "exit": ["ex:m.A.r2"],
                                   "states": {"u": {"entry": ["en:m.A.r2.u"], "exit": ["ex:m.A.r2.u"],
                                                    "after": {str(d2): {"target": "#m.B", "actions": ["tr:af2"]}}}}}}}
        elif shape == "slow_exit":
            # leaving A suspends in A's exit action while A's timer would come due
            A["after"] = {str(d1): {"target": "#m.C", "actions": ["tr:af1"]}}
            A["exit"] = ["ex:m.A", "slow:100:exA"]
        elif shape in ("start_race", "send_race"):
            # an entry action raises while the state owns a live timer and an eventless transition leaves it:
            # leaving suspends in the timer's cancellation, with the raised event already queued
            A["entry"] = ["en:m.A", {"type": "xstate.raise", "params": {"event": "E"}}]
            A["after"] = {str(d1): {"target": "#m.C", "actions": ["tr:af1"]}}
            A["always"] = {"target": "#m.B", "actions": ["tr:al"], **({"guard": "ga"} if shape == "send_race" else {})}
            A["on"]["E"] = {"target": "#m.C", "actions": ["tr:e"]}
        A["on"].update({"RE": {"target": "#m.A", "reenter": True, "actions": ["tr:re"]},
                        "GO": {"target": "#m.B", "actions": ["tr:go"]},
                        "NOP": {"actions": ["tr:nop"]}})
        if rng.random() < 0.7:
            A["on"]["SLOW"] = {"actions": ["tr:slow", "slow:100"]}
        cfg = {"id": "m", "initial": "A", "entry": ["en:m"], "exit": ["ex:m"], "states": {"A": A, "B": B, "C": C}}
        sp = Spec(cfg, "X", f"X-{seed}-{i}-{shape}-{d1}-{d2}")
        sp.delays = delays
        sp.events = ["RE", "GO", "BACK"] + (["SLOW"] if "SLOW" in A["on"] else []) + (["IN"] if shape == "nested" else [])
        out.append(sp)
    return out


# ---------------------------------------------------------------------------------------
# Family V: invoked services (driver-controlled completion), with timers and slow actions around them

def family_V(seed: int, count: int) -> List[Spec]:
    rng = random.Random(seed)
    out = []
    shapes = ["one", "no_onerror", "two", "with_after", "nested", "reenter_done", "slow_exit",
              "plain_ok", "plain_fail", "plain_fail_unhandled"]
    for i in range(count):
        shape = shapes[i % len(shapes)]
        inv = lambda iid, src, done, err=True: {"src": src, "id": iid,
                                                "onDone": {"target": done, "actions": [f"tr:done:{iid}"]},
                                                **({"onError": {"target": "#m.C", "actions": [f"tr:err:{iid}"]}} if err else {})}
        A: Dict[str, Any] = {"entry": ["en:m.A"], "exit": ["ex:m.A"], "on": {}}
        B: Dict[str, Any] = {"entry": ["en:m.B"], "exit": ["ex:m.B"], "on": {"BACK": {"target": "#m.A", "actions": ["tr:back"]}}}
        C: Dict[str, Any] = {"entry": ["en:m.C"], "exit": ["ex:m.C"], "on": {"BACK": {"target": "#m.A", "actions": ["tr:backc"]}}}
        services = {"s1": "driver"}
        if shape == "one":
            A["invoke"] = inv("i1", "s1", "#m.B")
        elif shape == "no_onerror":
            A["invoke"] = inv("i1", "s1", "#m.B", err=False)
        elif shape == "two":
            A["invoke"] = [inv("i1", "s1", "#m.B"), inv("i2", "s2", "#m.C", err=rng.random() < 0.5)]
            services["s2"] = "driver"
        elif shape == "with_after":
            A["invoke"] = inv("i1", "s1", "#m.B")
            A["after"] = {"50": {"target": "#m.C", "actions": ["tr:af"]}}
        elif shape == "nested":
            A = {"initial": "a1", "entry": ["en:m.A"], "exit": ["ex:m.A"], "on": {}, "invoke": inv("iA", "s1", "#m.B"),
                 "states": {"a1": {"entry": ["en:m.A.a1"], "exit": ["ex:m.A.a1"], "invoke": inv("i1", "s2", "#m.A.a2"),
                                   "on": {"IN": {"target": "#m.A.a2", "actions": ["tr:in"]}}},
                            "a2": {"entry": ["en:m.A.a2"], "exit": ["ex:m.A.a2"], "on": {"IN": {"target": "#m.A.a1", "actions": ["tr:in2"]}}}}}
            services["s2"] = "driver"
        elif shape == "slow_exit":
            # the service can complete while the exit action of the invoking state is suspended
            A["invoke"] = inv("i1", "s1", "#m.B")
            A["exit"] = ["ex:m.A", "slow:100:exA"]
        elif shape in ("plain_ok", "plain_fail", "plain_fail_unhandled"):
            # a plain (non-coroutine) callable: it has returned / raised by the time its task first runs
            A["invoke"] = inv("i1", "s1", "#m.B", err=shape != "plain_fail_unhandled")
            services["s1"] = "ok" if shape == "plain_ok" else "fail"
        elif shape == "reenter_done":
            A["invoke"] = {"src": "s1", "id": "i1", "onDone": {"target": "#m.A", "reenter": True, "actions": ["tr:done:i1"]},
                           "onError": {"target": "#m.C", "actions": ["tr:err:i1"]}}
        A["on"].update({"RE": {"target": "#m.A", "reenter": True, "actions": ["tr:re"]},
                        "GO": {"target": "#m.B", "actions": ["tr:go"]}})
        if rng.random() < 0.7:
            A["on"]["SLOW"] = {"actions": ["tr:slow", "slow:100"]}
        cfg = {"id": "m", "initial": "A", "entry": ["en:m"], "exit": ["ex:m"], "states": {"A": A, "B": B, "C": C}}
        sp = Spec(cfg, "V", f"V-{seed}-{i}-{shape}")
        sp.services = services
        sp.events = ["RE", "GO", "BACK"] + (["SLOW"] if "SLOW" in A["on"] else []) + (["IN"] if shape == "nested" else [])
        out.append(sp)
    return out
