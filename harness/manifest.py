"""Regenerates /verif/MANIFEST.json from the table below (run: /venv/bin/python -m harness.manifest)."""
import json
import os

ROOT = os.path.dirname(os.path.dirname(os.path.abspath(__file__)))

CORE_NOTE = ("Trusted: TLC; harness/export.py (indexes the MachineNode the library parsed, targets resolved by the "
             "library's resolver); the recorder (plugin hooks, subscriber, marker actions, harness-side subclasses "
             "wrapping send/_select_transitions/_cancel_state_tasks/_schedule_state_tasks/_after_timer). "
             "Exhaustive only within the bounded machine families; larger machines sampled by random walks.")

CHECKS = {
    "C01": dict(
        technique="TLA+ Impl-layer step semantics model-checked with TLC over machine families; every TLC edge replayed on the real Sync/Async/Pure engines; recorded runs trace-validated by TLC (Legal() on every observed configuration)",
        text="Every reachable quiescent state x event of every machine in families T/H/D is explored by TLC on an implementation-shaped TLA+ spec (spec/SCCore.tla); invariant Legal is evaluated on the post-configuration and on every configuration seen by on_transition hooks and subscribers (spec/SCProps.tla C01); every explored edge is executed on the real engines and must agree state-for-state and log-for-log, and random walks over larger machines are validated step by step against the spec. A violation is reported only for an observed real-engine step whose configuration is illegal. Thorough tier additionally runs the repository's own test suite with a recording pytest plugin (outside the repo) and lets TLC evaluate Legal on every configuration its interpreters show a subscriber (spec/SuiteLegal.tla).",
        design="DESIGN.md section 8 C01"),
    "C02": dict(
        technique="TLC model checking of selection (first enabled candidate at nearest ancestor, per active leaf) vs. the implementation's select/execute mechanics; edge replay with every _select_transitions call and fired transition observed; trace validation",
        text="Prop C02 (spec/SCProps.tla) computes the nominee set declaratively from the definition, the live configuration and the guard valuation and compares it with what every observed _select_transitions call returned and with which transitions then fired (exactly once, stale ones skipped, nothing else), for every reachable state x event x guard valuation over {true,false,raise} of family S/T machines; no-op and can() clauses check that nothing changed.",
        design="DESIGN.md section 8 C02"),
    "C03": dict(
        technique="TLC model checking + edge replay + trace validation of per-transition log segments (exit<transition<entry, ancestor/descendant order, event identity, enter/exit accounting replay, LCA frame)",
        text="For every executed transition of every explored edge (families T/H/D, both interpreters) the recorded log segment is checked by Prop C03: order of exit/transition/entry marker actions, ancestor/descendant order, the event each action received, a replay of entry/exit witnesses over the pre-configuration (never enter an active state, never exit an inactive one, ends in the post-configuration) and that no witness lies outside the subtree of the LCA of source and target.",
        design="DESIGN.md section 8 C03"),
    "C04": dict(
        technique="TLC model checking of Prop C04 on three TLA+ layers - core macrostep semantics with raise/assign reactions, chains and send_events batches (SCCore), scheduling layer with sends during suspended macrosteps, timer expiries and service results as producers (SCSched), thread-level protocol of the sync engine's re-entrancy flag (SCSyncFlag) - each bound to the code by edge replay (real engines, virtual-time loop, real threads parked at yield points) and trace validation of burst walks",
        text="Prop C04 (SCProps.C04Log / SCSched.C04Step) on every explored and observed step: events are dequeued in acceptance order, none lost or duplicated, the next dequeue only after the previous event settled (always follow-ups included), nothing processed re-entrantly inside a transition, raised events after the current event. Core layer: families R and A incl. batches, both interpreters; scheduling layer: families X and V on the async engine, queue carried between driver steps; thread layer: all interleavings of 2 (thorough: 3) sender threads over the flag test/set/reset and queue append/pop steps are model-checked, every counterexample and sampled complete behaviours are forced on the real SyncInterpreter with real threads and must reproduce the spec's outcome. The flag race TLC finds is a recorded known finding.",
        design="DESIGN.md section 8 C04",
        note="Trusted: TLC, vloop, recorder, the yield-point instrumentation of harness/flagrace.py (property/deque subclasses on the harness side). Thread interleavings at yield-point granularity, not bytecode granularity."),
    "C15": dict(
        technique="TLA+ actor layer (spec/SCActors.tla: spawn with explicit/automatic ids and systemIds incl. reuse, target resolution order, sendTo/forwardTo/sendParent/escalate, delayed sends + cancel, stopChild/stop, grandchildren) model-checked with TLC (exhaustive to a depth + simulation deeper); every explored behaviour executed on the real async engine under virtual time with the complete abstract actor state compared after each step",
        text="Prop C15 on every explored step: exactly one started child per spawn registered under id and systemId; each sent event delivered exactly once to exactly the addressed actor in sending order or dropped when unresolvable/ambiguous; cancel(id) removes that pending delayed send only; stopChild/stop remove the child and all descendants - also below a child that has already completed - from children map and system registry and nothing is received or emitted afterwards. All operation sequences over a fixed driver machine/op table up to a depth bound, every edge replayed on the real engine (running actors, children maps, registry, per-actor received events in order, pending delayed sends compared).",
        design="DESIGN.md section 8 C15",
        note="Trusted: TLC, vloop, the driver machine and child templates of harness/actors.py. Async engine only (thread-backed sync children are not driven). A divergence between model and code on the compared abstract state is reported as a violation of C15, since the model's step is the property's demanded outcome."),
    "C05": dict(
        technique="TLC model checking of the sync model with a spec-level equivalence of the sync/async/pure step variants; every edge executed on the three real engines in lock step and compared pairwise",
        text="For every reachable state x relevant event x guard valuation of families T/H/D/R/S (send_events batches included for R) TLC evaluates on the Impl layer whether the three engine variants of the step agree; every explored edge is then executed on SyncInterpreter, Interpreter (at quiescence) and the pure API along the same path and configuration, context, status, output and ordered action lists (with triggering events) are compared; purity of the pure API is observed on every call. Differences that are recorded defects are matched by narrow signatures (known_findings.json).",
        design="DESIGN.md section 8 C05"),
    "C06": dict(
        technique="TLC model checking over a family of guard expressions (depth <=2, every operand spelling, stateIn, parameterised, missing atoms, guard/cond key, choose branches) with valuations over true/false/raise; edge replay + trace validation; the guard the library parsed is compared by TLC with the guard the raw config denotes",
        text="Prop C06 (spec/SCProps.tla): every observed selection equals the first candidate whose guard is true under the plain boolean meaning (raise = false) at the nearest level; the guard record the library attached to each transition equals the one computed independently from the raw config (cond = guard, all spellings); a raising guard completes the step undisturbed; a named but unimplemented first candidate is reported as ImplementationMissingError and decides nothing. Guards inside choose branches are modelled on the Impl layer and bound by edge replay.",
        design="DESIGN.md section 8 C06"),
    "C12": dict(
        technique="TLC-explored crash points (every reachable state) x continuations (every edge); snapshot -> from_snapshot on real interpreters, original vs restored vs model; TLC-enumerated snapshot corruption cases",
        text="Every reachable quiescent state of the TLC model is a crash/resume point and every outgoing state-changing edge a continuation: the real interpreter is snapshotted there (valid JSON), restored with from_snapshot (+start on the async engine), and the same step is performed on original and restored interpreter, which must agree with each other (configuration, history, context, status, output, error flag, ordered actions); re-snapshotting reproduces the snapshot and an earlier snapshot is unaffected by later execution (a nested context value is updated in place after the snapshot). spec/SnapCases.tla enumerates every single-point corruption with the demanded verdict; each is applied to the real from_snapshot on both engines.",
        design="DESIGN.md section 8 C12",
        note="Trusted: TLC, exporter, recorder. Child actors: reachable states of the actor model (spec/SCActors.tla) with live children are snapshotted, restored and continued on the asyncio engine (harness/actors.snapshot_leg). Pending timers / in-flight services are excepted by the property."),
    "C17": dict(
        technique="TLC checks the generator's protocol (spec/Codegen.tla: render, verify all, write; invariants NoWriteBeforeVerified, AllOrNothing) and validates the observation of every real `xsm generate-template` invocation (spec/CodegenObs.tla); 'rebuilds the source machine' is decided against Norm(J) computed by TLC from spec/Frontend.tla; the harness runs the real CLI, diffs the directory, runs --check and a second generation, imports the output in a fresh process and reads the built machine back",
        text="Per invocation (machine x template in {pythonic-builder, pythonic-functional, pythonic-class, class-json, function-json} x async yes/no x 1/2 files): exit status and directory before/after (refusal writes nothing), every written file parses, imports silently in a fresh process (no output, no new files, no payload), pythonic templates build a machine whose normal form equals Norm(J) (states, kinds, initial/history, resolved targets, guards with structure and params, actions with params, delays, invokes, tags, meta, context) and whose configurations along a fixed event sequence equal those of create_machine(json) under the same logic; JSON-loading templates: create_machine(json, generated logic) binds every referenced name; --check on fresh output exits 0; regeneration is byte-identical. Machines: family W, G, S, H, X, V, R, E and identifier-named twins, hostile / colliding names (quote, docstring, newline, comment breakers around a sentinel-creating payload), the Stately corpus.",
        design="DESIGN.md section 8 C17",
        note="Trusted: TLC; harness/cgworker.py (import + rebuild in a subprocess); Frontend.tla's Norm as the meaning of the JSON (library's own reading where the spec classes a Stately export as not plainly interpretable). Custom state ids are excluded from the comparison (the generator resolves them into targets). Text-level clauses (valid Python, data-only strings, byte identity) are observations; the specification states which outcomes are allowed."),
    "C18": dict(
        technique="TLA+ specification of the config front end (spec/Frontend.tla: Norm = the machine a raw config denotes, Probs/Class = which configs cannot be interpreted, Apply = 17 documented respellings, single-point corruptions) enumerated by TLC (spec/MCFrontend.tla); every respelt / corrupted config built with the real create_machine and compared with the specification (normal form read back from the library's parse, exception class escaping create/start/send), plus cross-replay of the original machine's SCCore state graph on the respelt machine's real engines",
        text="Rewrites: for every machine of families W (random mix of spellings over every construct) and T/H/D/S/R/G/E/X/V/A and every rewrite set in {none, all, singletons, random subsets; thorough: all pairs} TLC checks Norm(Apply(J, rs)) = Norm(J) on the spec and emits the respelt config; the harness requires nf_lib(respelt) = nf_lib(original) = Norm(original), the same final configuration after a fixed probe, and replays every TLC edge of the original machine's behaviour graph on the respelt machine's real sync/async engine (state and full log). Corruptions: every node x 11 representative wrong-typed values (quick: a 1/stride sample of nodes); TLC classifies reject / lazy / either / accept(+Norm); observed: raw error = violation always, silent acceptance = violation when reject is demanded, Norm compared when accepted. Negative family: 15 uninterpretable configs driven to first use must raise an XStateMachineError subclass.",
        design="DESIGN.md section 8 C18",
        note="Trusted: TLC; the tokeniser and nf_lib reader of harness/frontend.py; the probe (sync engine, all-implementing logic, start + two rounds of every declared event). 'reject' is demanded only for shapes without documented meaning; documented coercions are class 'either'. 'Naming the offender' is measured (evidence: library_errors_naming_offender), not enforced."),
    "C19": dict(
        technique="abstract machine definitions rendered as the JSON they denote and through the functional / class / builder styles; TLC computes the denotation Norm(J(A)) (spec/Frontend.tla) and the behaviour graph of J(A) (spec/SCCore.tla); every style-built machine is read back and compared with Norm, and every edge of the graph is replayed on it; spec/Bind.tla (References(Norm(J)), Answers, Outcome) enumerated by TLC over offered-callable subsets and bound to create_machine with logic_modules / logic_providers / MachineLogic subclass; built-in override cases run on both engines",
        text="(a) family P (random trees with parallel/final states, Transition objects incl. internal/reenter/guards, on= shorthand, always, on_done, root properties, tags, meta; a quarter with one bare state name at several depths): nf_lib(style-built) = Norm(J(A)) for the three styles, and all TLC edges of J(A) replayed on each style-built machine (state + full log). (b) two builds from one definition: running or mutating one leaves the other and later builds unchanged. (c) Bind.tla: for every offered subset (all, each-one-missing, random; thorough: all 2^n) the demanded outcome (bound / ImplementationMissingError at creation) and the admissible callable per referenced name (exact or camelCase spelling; choose branches, spawn_ directives, composite guards, private names) vs. the real discovery; subclass methods must bind under the config's spelling. (d) every built-in action alias x explicit/module x sync/async, and the stateIn guard: the user's implementation runs, the built-in does not.",
        design="DESIGN.md section 8 C19",
        note="Trusted: TLC; the harness renderer of the denoted JSON (harness/pyapi.py) and its camelCase converter; the recorder. History states and after/invoke are part of the JSON passthrough of these styles and are covered by C18's family W rather than family P."),
    "C20": dict(
        technique="TLC model checking with a descriptor order defined independently of the implementation-shaped matcher (specificity ranks), over a family of key sets x event types incl. synthetic events and null transitions; edge replay + trace validation",
        text="Prop C20 computes, for every observed selection, the nominee of each active leaf using its own specificity order (exact, partial by decreasing prefix length, wildcard; synthetic done./error./after./xstate. types exact only; a null transition consumes the event at that state) and requires the selection to equal it. Family E: child/parent/root key subsets from a universe of exact, partial, wildcard, look-alike and synthetic keys with guards and null entries; every event type from every reachable state and guard valuation.",
        design="DESIGN.md section 8 C20"),
    "C07": dict(
        technique="TLC model checking of the Impl layer with fault plans (a clean and a faulty twin of every step compared by Prop C07), aborting-error family, edge replay of faulty steps, replay with always-raising plugin/subscriber/listener, trace validation of observed twins",
        text="For every reachable state x relevant event the step is explored fault-free and once per user action its fault-free run executes with that action raising (pairs in the thorough tier); Prop C07Pair requires the faulty run to equal its clean twin on configurations, status, history and every action outside the faulted list, the faulted list's remainder to be skipped, and on_action_error to be notified; C07Abort requires an aborted transition (unimplemented action, family F) to restore the configuration, re-arm exactly the exited states, and leave the interpreter running. Faulty edges are replayed on both engines; every edge is also replayed with a plugin whose every hook raises, a raising subscriber and a raising emit listener and must equal the run with well-behaved observers.",
        design="DESIGN.md section 8 C07"),
    "C08": dict(
        technique="TLA+ scheduling layer (spec/SCSched.tla: virtual time, timers with deadlines and creation order, slow suspending actions, stop) model-checked with TLC; every edge replayed on the real asyncio Interpreter under a virtual-time event loop; divergent runs trace-validated (spec/TraceSched.tla)",
        text="TLC explores all placements of sends, waits, deadline instants (handles of one instant in creation order) and stop() up to a depth/horizon over family X (one/two timers, equal deadlines, guarded candidates, periodic re-entry, named delays, nested and parallel owners, 100 ms suspending actions) and evaluates Prop C08 on every edge: an after transition fires only when its state has been continuously active for the delay since its most recent entry, at most once per activation, at the deadline when idle, never after exit or stop. Every edge is executed on the real async engine under virtual time and compared on configuration, queue contents, virtual now, live timers with deadlines, busy-until and the visible log. The same layer with EngineS = sync (timer threads that check status / owner and call send() inline at expiry) is explored over family X without coroutine actions and replayed on the real SyncInterpreter whose threading.Event / Thread are virtualised.",
        design="DESIGN.md section 8 C08",
        note="Trusted: TLC; harness/vloop.py (virtual-time asyncio loop firing handles in (when, creation) order); harness/vthreads.py (the sync engine's timer threads parked in a virtual Event.wait and woken in (deadline, creation) order, one at a time); the traced interpreter subclasses."),
    "C09": dict(
        technique="TLA+ scheduling layer with invoked services as driver-controlled futures (resolve/reject at any driver step), TLC model checking, edge replay on the real async engine under virtual time, trace validation",
        text="Family V (one/two invocations, with and without onError, beside timers, on parent and child, onDone re-entering the invoker, slow transition and slow EXIT actions, plain callables that return / raise at once): TLC explores every placement of service completion relative to queued events, suspended macrosteps, re-entry and stop; Prop C09 requires one start per entry, that no handler is driven by a result produced by an earlier activation, that a failure nobody handles sets the error status, and that no service task outlives its state or stop(). Every edge replayed under virtual time; live service tasks are part of the compared state.",
        design="DESIGN.md section 8 C09",
        note="Trusted: TLC; harness/vloop.py; driver-controlled service futures and plain callables. Async engine (coroutines and plain callables as src) and sync engine (plain callables, called at the invocation); child machines as src are exercised by C15. Runs in which the engine keeps a service alive that the model has released are continued on the engine alone and judged by spec/TraceSched.tla."),
    "C13": dict(
        technique="TLC model checking of self-feeding chain machines with a fuel-bounded Impl layer (non-termination = Diverged on both sides), bursts of externally sent events, edge replay with a clock-free divergence detector, trace validation",
        text="Family A (always rings/chains, self-raise, raise rings, exit-raise, onDone re-completion, mixed raise, raise inside eventless transitions; maxIterations 2/3/5, chain length below/at/above) on both engines, started by start() or an event, plus send_events bursts longer than the bound: Prop C13 requires termination, that a chain is never cut before the configured length, that a cut leaves a legal configuration and a running interpreter, and that no externally sent event is discarded. Divergence is detected without a clock (the recorder aborts a step after 10*(M+1) dequeues; the spec has the same fuel).",
        design="DESIGN.md section 8 C13"),
    "C14": dict(
        technique="TLC model checking of lifecycle steps on the core layer (stop, repeated start, send after done/error/stopped from every reachable state, both engines) and on the scheduling layer (stop at every driver step with timers/services/slow actions pending), edge replay, trace validation",
        text="Prop C14: status moves only along uninitialized->running->(done|error)->stopped (or running->stopped); start() is a no-op while running/done/failed and refuses with InvalidConfigError on a stopped interpreter; send() after done/error/stopped changes and runs nothing; stop() is idempotent from any status and leaves no timer, service task or busy consumer, and nothing is delivered afterwards (waits and deadlines after stop are explored).",
        design="DESIGN.md section 8 C14",
        note="Trusted: TLC, vloop, vthreads, recorder. Sync engine: lifecycle on the core layer and stop() with live timer threads on the scheduling layer; its delayed-send threads are not driven."),
    "C10": dict(
        technique="TLC model checking + edge replay + trace validation; completions counted as rising edges of in-final along the configuration reconstructed from entry/exit witnesses of each step",
        text="Prop C10 (spec/SCProps.tla) checks on every explored/observed step: done.state events are raised exactly for completions (literal reading as lower bound, the engine's recursive reading as upper bound), a parallel state's onDone is never taken while a region is not final, a top-level final state sets status done exactly once with the right output, nothing runs for events dequeued after completion, and sends to a done machine change nothing. Families D (completion nests), R (reactions, events queued behind completion), T.",
        design="DESIGN.md section 8 C10"),
    "C11": dict(
        technique="TLC model checking + edge replay + trace validation of history-targeting transitions against the configuration remembered at the parent's last exit",
        text="For every transition into a history pseudo-state from outside its parent, on every explored/observed step, the sub-configuration activated inside the parent is compared with what Prop C11 computes from the remembered configuration: shallow = default closure of the remembered child(ren), deep = exactly the remembered leaves, never visited = default target or the parent's normal entry; each restored state entered once. Family H covers compound and parallel parents, nested parallel states below the parent, both history kinds side by side, default targets, wrapper depth; TLC reaches never/once/repeatedly visited histories by exploring all event sequences.",
        design="DESIGN.md section 8 C11"),
    "C16": dict(
        technique="deterministic TLA+ Impl layer (one successor per state and step, TLC) bound to the code by replaying every edge in k processes with different PYTHONHASHSEED/heap layout and twice in-process, comparing complete logs",
        text="The specification fixes every order the code is supposed to produce, so the model has a unique successor per (state, step); every TLC edge that runs an action or changes the configuration is executed on the real engines in several processes that differ in hash seed and heap layout and on independently built machines in one process; full recorder logs and post-states must be identical across runs (and are compared with the spec's unique successor).",
        design="DESIGN.md section 8 C16"),
}

ALL = [f"C{i:02d}" for i in range(1, 21)]


def main() -> None:
    checks = []
    for pid, c in CHECKS.items():
        checks.append({
            "property_id": pid,
            "quick_cmd": f"./check {pid} --tier quick",
            "thorough_cmd": f"./check {pid} --tier thorough",
            "evidence_file": f"/verif/evidence/{pid}.json",
            "replay_cmd_template": f"./check {pid} --replay {{path}}",
            "engine": "tlc+harness",
            "level_claimed": {"category": "model_checking", "text": c["text"], "design_ref": c["design"]},
            "level_note": c.get("note", CORE_NOTE),
            "technique": c["technique"],
        })
    na = [{"property_id": p, "reason": NOT_YET.get(p, "check not built yet in this round; planned per DESIGN.md section 8")}
          for p in ALL if p not in CHECKS]
    m = {
        "version": 1,
        "setup_cmd": "true",
        "hooks": {
            "guard": "XSTATE_STATEMACHINE_VERIF",
            "enable": "no repo hooks: the harness observes through the public plugin API, subscribe(), and harness-side subclasses of the two interpreters; checks import /repo/src directly (PYTHONPATH), nothing is built",
            "baseline_off_cmd": "cd /repo && /venv/bin/python -m pytest -ra -q -p no:cacheprovider --timeout=900 --continue-on-collection-errors",
            "source_commits": [],
            "add_only": True,
        },
        "engines": [
            {"name": "tlc", "path": "/opt/veriftools/tla/tla2tools.jar", "serves_properties": sorted(CHECKS),
             "kind_free_text": "TLC model checker over spec/*.tla (Impl layer SCCore, Prop layer SCProps, MCCore edge dump, TraceCore trace validation)"},
            {"name": "harness", "path": "/verif/harness", "serves_properties": sorted(CHECKS),
             "kind_free_text": "Python conformance harness: exporter, recorder, edge replay on SyncInterpreter/Interpreter/pure API, random-walk trace recording"},
        ],
        "checks": checks,
        "notes": "Genuine defects found by the machinery and repaired are listed as status=fixed in known_findings.json (fix: commits in /repo); status=known entries produce KNOWN-FINDING lines. The thorough tier runs under a time budget (VERIF_BUDGET_S seconds, default 1200, 0 = none): work units not started when it is spent are not run and are counted in the evidence (units_not_run_time_budget); running units finish, so a thorough run ends some minutes after the budget.",
        "not_applicable": na,
    }
    with open(os.path.join(ROOT, "MANIFEST.json"), "w") as f:
        json.dump(m, f, indent=1)


NOT_YET = {}

if __name__ == "__main__":
    main()
