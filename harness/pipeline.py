"""Shared pipeline: build machines, export a batch, model-check it, collect edges."""
from __future__ import annotations

import json
import os
from typing import Any, Dict, List, Optional, Tuple

from . import tla
from .export import export_machine
from .gen import Spec
from .rt import Ctl, create_machine, make_logic


class Built:
    def __init__(self, spec: Spec, services=None, delays=None) -> None:
        self.spec = spec
        self.ctl = Ctl()
        missing = set(getattr(spec, "missing", ()) or ())
        acts = [a for a in spec.actions if a not in missing]
        grds = [g for g in spec.guards if g not in missing]
        self.logic = make_logic(self.ctl, acts, grds, services or getattr(spec, "services", None),
                                delays or getattr(spec, "delays", None))
        self.machine = create_machine(spec.config, logic=self.logic)
        self.defn = export_machine(self.machine, self.ctl, events=getattr(spec, "events", None),
                                   intended_guards=intended_guards(spec.config),
                                   service_kinds={k: v for k, v in (services or getattr(spec, "services", None) or {}).items()
                                                  if isinstance(v, str)})
        self.ctx_keys = sorted(self.defn["ctx0"].keys())


def intended_guards(config: dict) -> Dict[str, Any]:
    """marker action name -> the raw guard (guard or cond key) of the transition config that carries it."""
    out: Dict[str, Any] = {}

    def tr(x):
        for t in (x if isinstance(x, list) else [x]):
            if isinstance(t, dict):
                raw = t.get("guard", t.get("cond"))
                acts = t.get("actions")
                for a in (acts if isinstance(acts, list) else [acts] if acts else []):
                    if isinstance(a, str) and a.startswith("tr:"):
                        out[a] = raw

    def walk(node):
        for v in (node.get("on") or {}).values():
            tr(v)
        for key in ("always", "onDone"):
            if node.get(key):
                tr(node[key])
        for c in (node.get("states") or {}).values():
            if isinstance(c, dict):
                walk(c)

    walk(config)
    return out


def build_all(specs: List[Spec]) -> List[Built]:
    return [Built(s) for s in specs]


MC_CFG = """SPECIFICATION Spec
CONSTANTS
  Engine = "{engine}"
  GuardVals = {gvals}
  WithCan = {withcan}
  PropSet = {propset}
  WithBatch = {withbatch}
  WithBurst = {withburst}
  WithFaults = {withfaults}
  WithLifecycle = {withlife}
  FaultPairs = {faultpairs}
  MaxStates = {maxstates}
VIEW View
CONSTRAINT Bound
ACTION_CONSTRAINT Emit
CHECK_DEADLOCK FALSE
"""


def canon_state(s: dict) -> dict:
    """Canonical form of a projected state coming from TLC's ToJson."""
    hist = s.get("hist") or {}
    if isinstance(hist, list):  # empty function prints as []
        hist = {}
    ctx = s.get("ctx") or {}
    if isinstance(ctx, list):
        ctx = {}
    return {
        "config": sorted(s.get("config") or []),
        "hist": {k: sorted(v) for k, v in hist.items()},
        "status": s["status"],
        "ctx": dict(ctx),
        "output": s.get("output", "NONE"),
        "err": list(s.get("err") or []),
    }


def canon_out(out: list) -> List[list]:
    res = []
    for e in out or []:
        res.append([e["k"], e["a"], e["b"], sorted(e.get("c") or []), sorted(e.get("d") or [])])
    return res


def canon_step(step: dict) -> dict:
    gv = step.get("gv") or {}
    if isinstance(gv, list):
        gv = {}
    r = {"op": step["op"], "ev": step.get("ev", ""), "gv": dict(gv)}
    if step["op"] == "batch":
        r["evs"] = list(step.get("evs") or [])
    if step.get("faults"):
        r["faults"] = sorted(step["faults"])
    return r


def state_key(mi: int, s: dict) -> str:
    return json.dumps([mi, s], sort_keys=True)


class Edge:
    __slots__ = ("mi", "frm", "step", "to", "out", "prop", "dirty")

    def __init__(self, obj: dict) -> None:
        self.mi = obj["mi"]
        self.frm = canon_state(obj["from"])
        self.step = canon_step(obj["step"])
        self.to = canon_state(obj["to"])
        self.out = canon_out(obj["out"])
        self.prop = {k: sorted(v or []) for k, v in (obj.get("prop") or {}).items()}
        self.dirty = bool(obj.get("dirty", False))


ALL_PROPS = ("C01", "C02", "C03", "C10", "C11")  # C05 only on request (three engine steps per edge)


def _set(xs) -> str:
    return "{" + ", ".join(f'"{x}"' for x in xs) + "}"


def model_check(built: List[Built], workdir: str, *, engine="sync", gvals=("T", "F"), with_can=False,
                workers=4, timeout=1800, coverage=False, props=ALL_PROPS, max_states=10 ** 8, with_batch=False, with_burst=False, with_faults=False,
                fault_pairs=False, with_lifecycle=False) -> Tuple[tla.TLCResult, List[Edge]]:
    os.makedirs(workdir, exist_ok=True)
    tla.write_batch(os.path.join(workdir, "Batch.tla"), [b.defn for b in built])
    cfg = MC_CFG.format(engine=engine, gvals="{" + ", ".join(f'"{g}"' for g in gvals) + "}",
                        withcan="TRUE" if with_can else "FALSE", propset=_set(props),
                        maxstates=max_states, withbatch="TRUE" if with_batch else "FALSE",
                        withburst="TRUE" if with_burst else "FALSE",
                        withfaults="TRUE" if with_faults else "FALSE",
                        faultpairs="TRUE" if fault_pairs else "FALSE",
                        withlife="TRUE" if with_lifecycle else "FALSE")
    edges: List[Edge] = []
    res = tla.run_tlc("MCCore", cfg, workdir, workers=workers, timeout=timeout, coverage=coverage,
                      json_sink=lambda o: edges.append(Edge(o)))
    return res, edges


TRACE_CFG = """SPECIFICATION Spec
CONSTANTS
  PropSet = {propset}
ACTION_CONSTRAINT Emit
CHECK_DEADLOCK FALSE
"""


def validate_traces(built: List[Built], traces: List[dict], workdir: str, *, workers=4, timeout=1800,
                    module="TraceCore", props=ALL_PROPS) -> Tuple[tla.TLCResult, List[dict]]:
    """Code -> spec. traces: [{mi, eng, tag, steps:[{pre, step, post, out}]}]; returns verdict lines."""
    os.makedirs(workdir, exist_ok=True)
    tla.write_batch(os.path.join(workdir, "Batch.tla"), [b.defn for b in built])
    with open(os.path.join(workdir, "traces.ndjson"), "w") as f:
        for t in traces:
            f.write(json.dumps(t) + "\n")
    verdicts: List[dict] = []
    res = tla.run_tlc(module, TRACE_CFG.format(propset=_set(props)), workdir, workers=workers, timeout=timeout,
                      json_sink=lambda o: verdicts.append(o))
    for v in verdicts:
        v["prop"] = {k: sorted(x or []) for k, x in (v.get("prop") or {}).items()}
    return res, verdicts


def obs_state(s: dict) -> dict:
    """Projected state -> the JSON shape TraceCore expects."""
    return {"config": sorted(s["config"]), "hist": {k: sorted(v) for k, v in (s.get("hist") or {}).items() if v},
            "status": s["status"], "ctx": dict(s.get("ctx") or {}), "output": s.get("output", "NONE"),
            "err": list(s.get("err") or [])}
