"""Abstract machine definitions rendered four ways: as the JSON config they denote (the harness's own
renderer - the oracle side) and through the library's three Python styles (functional build_machine,
class-based StateMachine, fluent MachineBuilder).

An abstract definition:
  {"id", "context", "root": props | None, "states": [S..], "transitions": [T..]}
  S = {"name", "initial", "final", "parallel", "history", "on", "entry", "exit", "after", "invoke", "on_done",
       "always", "tags", "meta", "states": [S..]}
  T = {"src": path, "event", "tgt": path | None, "guard", "actions", "reenter", "internal"}
A Transition object relates two State OBJECTS; what it denotes is a transition declared on the source
state's own node, targeting the target state's own node (absolute id), whatever other states are called.
"""
from __future__ import annotations

import copy
import random
from typing import Any, Callable, Dict, List, Optional, Tuple

from .rt import MachineLogic  # noqa: F401  (path set-up)

from xstate_statemachine import pythonic as py  # noqa: E402

PROPS = ("on", "entry", "exit", "after", "invoke", "on_done", "always", "tags", "meta")


# ----------------------------------------------------------------------------------------------
# the JSON config an abstract definition denotes
# ----------------------------------------------------------------------------------------------
def _state_json(s: dict) -> dict:
    c: Dict[str, Any] = {}
    if s.get("final"):
        c["type"] = "final"
    elif s.get("parallel"):
        c["type"] = "parallel"
    elif s.get("history"):
        c["type"] = "history"
        c["history"] = s["history"]
    if s.get("entry"):
        c["entry"] = list(s["entry"])
    if s.get("exit"):
        c["exit"] = list(s["exit"])
    if s.get("on"):
        c["on"] = copy.deepcopy(s["on"])
    if s.get("always") is not None:
        c.setdefault("on", {})[""] = copy.deepcopy(s["always"])
    if s.get("after"):
        c["after"] = copy.deepcopy(s["after"])
    if s.get("invoke"):
        c["invoke"] = copy.deepcopy(s["invoke"])
    if s.get("on_done") is not None:
        c["onDone"] = {"target": s["on_done"]} if isinstance(s["on_done"], str) else copy.deepcopy(s["on_done"])
    if s.get("tags"):
        c["tags"] = list(s["tags"])
    if s.get("meta"):
        c["meta"] = copy.deepcopy(s["meta"])
    kids = s.get("states") or []
    if kids:
        c["states"] = {k["name"]: _state_json(k) for k in kids}
        ini = [k["name"] for k in kids if k.get("initial")]
        if ini and not s.get("parallel"):
            c["initial"] = ini[0]
    return c


def denoted_json(a: dict) -> dict:
    cfg: Dict[str, Any] = {"id": a["id"], "states": {s["name"]: _state_json(s) for s in a["states"]}}
    ini = [s["name"] for s in a["states"] if s.get("initial")]
    if ini:
        cfg["initial"] = ini[0]
    if a.get("context") is not None:
        cfg["context"] = copy.deepcopy(a["context"])
    r = a.get("root")
    if r:
        if r.get("parallel"):
            cfg["type"] = "parallel"
        if r.get("on"):
            cfg["on"] = copy.deepcopy(r["on"])
        if r.get("always") is not None:
            cfg.setdefault("on", {})[""] = copy.deepcopy(r["always"])
        if r.get("entry"):
            cfg["entry"] = list(r["entry"])
        if r.get("exit"):
            cfg["exit"] = list(r["exit"])
        if r.get("after"):
            cfg["after"] = copy.deepcopy(r["after"])
        if r.get("invoke"):
            cfg["invoke"] = copy.deepcopy(r["invoke"])
        if r.get("on_done") is not None:
            cfg["onDone"] = {"target": r["on_done"]} if isinstance(r["on_done"], str) else copy.deepcopy(r["on_done"])
        if r.get("tags"):
            cfg["tags"] = list(r["tags"])
        if r.get("meta"):
            cfg["meta"] = copy.deepcopy(r["meta"])
    # Transition objects: declared on the source node, targeting the target node
    by: Dict[Tuple[tuple, str], List[dict]] = {}
    for t in a.get("transitions") or []:
        e: Dict[str, Any] = {}
        if not t.get("internal") and t.get("tgt") is not None:
            e["target"] = "#" + ".".join([a["id"]] + list(t["tgt"]))
        if t.get("guard"):
            e["guard"] = t["guard"]
        if t.get("actions"):
            e["actions"] = list(t["actions"])
        if t.get("reenter"):
            e["reenter"] = True
        by.setdefault((tuple(t["src"]), t["event"]), []).append(e)
    for (src, ev), lst in by.items():
        node = cfg
        for k in src:
            node = node["states"][k]
        node.setdefault("on", {})[ev] = lst[0] if len(lst) == 1 else lst
    return cfg


# ----------------------------------------------------------------------------------------------
# the three Python styles
# ----------------------------------------------------------------------------------------------
def _mk_state(s: dict, objs: Dict[tuple, Any], path: tuple, *, name: Optional[str] = None):
    kids = [_mk_state(k, objs, path + (k["name"],)) for k in (s.get("states") or [])]
    kw: Dict[str, Any] = {}
    for k in ("initial", "final", "parallel"):
        if s.get(k):
            kw[k] = True
    if s.get("history"):
        kw["history"] = s["history"]
    for k in PROPS:
        if s.get(k) is not None and (s.get(k) or k in ("always", "on_done")):
            kw[k] = copy.deepcopy(s[k])
    if kids:
        kw["states"] = kids
    st = py.State(s["name"] if name is None else name, **kw)
    objs[path] = st
    return st


def _root_state(a: dict):
    r = a.get("root")
    if not r:
        return None
    kw: Dict[str, Any] = {}
    if r.get("parallel"):
        kw["parallel"] = True
    for k in PROPS:
        if r.get(k) is not None and (r.get(k) or k in ("always", "on_done")):
            kw[k] = copy.deepcopy(r[k])
    return py.State("", **kw)


def _mk_transitions(a: dict, objs: Dict[tuple, Any], functional: bool) -> list:
    out = []
    for i, t in enumerate(a.get("transitions") or []):
        src = objs[tuple(t["src"])]
        tgt = objs[tuple(t["tgt"])] if t.get("tgt") is not None else None
        kw = dict(guard=t.get("guard"), actions=list(t.get("actions") or []))
        if t.get("internal"):
            out.append(src.internal(t["event"], **kw) if not functional or i % 2 else
                       py.transition(src, t["event"], src, internal=True, **kw))
        elif functional and i % 2 == 0:
            out.append(py.transition(src, t["event"], tgt, reenter=bool(t.get("reenter")), **kw))
        else:
            out.append(src.to(tgt, event=t["event"], reenter=bool(t.get("reenter")), **kw))
    return out


def _named(fn: Callable, name: str, kind: str) -> Callable:
    """A fresh callable registered under `name` (explicit decorator form)."""
    if kind == "guard":
        def g(ctx, event, params=None):
            return fn(ctx, event, params)
        return py.guard(name)(g)
    if kind == "service":
        return py.service(name)(fn)

    def act(interp, ctx, event, action_def):
        return fn(interp, ctx, event, action_def)
    return py.action(name)(act)


def build_functional(a: dict, logic) -> Any:
    objs: Dict[tuple, Any] = {}
    states = [_mk_state(s, objs, (s["name"],)) for s in a["states"]]
    trans = _mk_transitions(a, objs, True)
    return py.build_machine(
        id=a["id"], states=states, transitions=trans,
        actions=[_named(f, n, "action") for n, f in logic.actions.items()],
        guards=[_named(f, n, "guard") for n, f in logic.guards.items()],
        services=[_named(f, n, "service") for n, f in logic.services.items()],
        context=copy.deepcopy(a.get("context")), root=_root_state(a))


def class_definition(a: dict, logic) -> type:
    objs: Dict[tuple, Any] = {}
    ns: Dict[str, Any] = {"machine_id": a["id"], "initial_context": copy.deepcopy(a.get("context"))}
    for s in a["states"]:
        # the attribute name is the state name (name inference)
        ns[s["name"]] = _mk_state(s, objs, (s["name"],), name="")
        objs[(s["name"],)].name = ""      # inferred by the metaclass
    r = _root_state(a)
    if r is not None:
        ns["machine_root"] = r
    # the metaclass fills in names from attribute names; transitions refer to the objects
    for i, t in enumerate(_mk_transitions(a, objs, False)):
        ns[f"tr_{i}"] = t
    n = 0
    for kind, table in (("action", logic.actions), ("guard", logic.guards), ("service", logic.services)):
        for name, fn in table.items():
            n += 1
            if kind == "guard":
                def m(self, ctx, event, params=None, _f=fn):
                    return _f(ctx, event, params)
                ns[f"impl_{n}"] = py.guard(name)(m)
            elif kind == "service":
                def ms(self, *args, _f=fn, **kw):
                    return _f(*args, **kw)
                ns[f"impl_{n}"] = py.service(name)(ms)
            else:
                def ma(self, interp, ctx, event, action_def, _f=fn):
                    return _f(interp, ctx, event, action_def)
                ns[f"impl_{n}"] = py.action(name)(ma)
    return type("Generated" + a["id"].capitalize(), (py.StateMachine,), ns)


def build_class(a: dict, logic) -> Any:
    return class_definition(a, logic).create_machine()


def _unique_names(a: dict) -> Dict[str, int]:
    cnt: Dict[str, int] = {}

    def walk(ss):
        for s in ss:
            cnt[s["name"]] = cnt.get(s["name"], 0) + 1
            walk(s.get("states") or [])
    walk(a["states"])
    return cnt


def builder_definition(a: dict, logic):
    """MachineBuilder: top-level states through .state(), nested subtrees as raw dicts through
    .child_states(), top-level transitions through .transition() with target NAMES."""
    cfg = denoted_json({**a, "transitions": [t for t in (a.get("transitions") or []) if len(t["src"]) > 1]})
    cnt = _unique_names(a)
    mb = py.MachineBuilder(a["id"])
    if a.get("context") is not None:
        mb.context(copy.deepcopy(a["context"]))
    for s in a["states"]:
        kw: Dict[str, Any] = {}
        for k in ("initial", "final", "parallel"):
            if s.get(k):
                kw[k] = True
        if s.get("history"):
            kw["history"] = s["history"]
        for k in PROPS:
            if s.get(k) is not None and (s.get(k) or k in ("always", "on_done")):
                kw[k] = copy.deepcopy(s[k])
        mb.state(s["name"], **kw)
        if s.get("states"):
            sub = cfg["states"][s["name"]]
            mb.child_states(s["name"], initial=sub.get("initial"), states=copy.deepcopy(sub["states"]),
                            parallel=bool(s.get("parallel")))
    for t in a.get("transitions") or []:
        if len(t["src"]) != 1:
            continue
        if t.get("tgt") is None:
            tgt = t["src"][0]
        else:
            last = t["tgt"][-1]
            tgt = last if cnt.get(last, 0) == 1 and len(t["tgt"]) == 1 else "#" + ".".join([a["id"]] + list(t["tgt"]))
        mb.transition(t["src"][0], t["event"], tgt, guard=t.get("guard"), actions=list(t.get("actions") or []) or None,
                      reenter=bool(t.get("reenter")), internal=bool(t.get("internal")))
    r = a.get("root")
    if r:
        props: Dict[str, Any] = {}
        if r.get("parallel"):
            props["type"] = "parallel"
        for k, jk in (("on", "on"), ("entry", "entry"), ("exit", "exit"), ("after", "after"), ("invoke", "invoke"),
                      ("tags", "tags"), ("meta", "meta")):
            if r.get(k):
                props[jk] = copy.deepcopy(r[k])
        if r.get("always") is not None:
            props.setdefault("on", {})[""] = copy.deepcopy(r["always"])
        if r.get("on_done") is not None:
            props["onDone"] = {"target": r["on_done"]} if isinstance(r["on_done"], str) else copy.deepcopy(r["on_done"])
        mb.root(**props)
    for n, f in logic.actions.items():
        mb.action(n, f)
    for n, f in logic.guards.items():
        mb.guard(n, f)
    for n, f in logic.services.items():
        mb.service(n, f)
    return mb


def build_builder(a: dict, logic) -> Any:
    return builder_definition(a, logic).build()


STYLES = {"functional": build_functional, "class": build_class, "builder": build_builder}


# ----------------------------------------------------------------------------------------------
# family P: abstract definitions expressible in all three styles
# ----------------------------------------------------------------------------------------------
def family_P(seed: int, count: int, *, dup_names: bool = False, rich: bool = False) -> List[dict]:
    return [_p_machine(random.Random(seed * 104729 + i), i, dup_names, rich) for i in range(count)]


def _p_machine(rng: random.Random, idx: int, dup_names: bool, rich: bool) -> dict:
    pool = ["a", "b", "c", "d", "e", "f", "g", "h", "k"] + [f"s{i}" for i in range(40)]
    used: List[str] = []
    paths: List[tuple] = []

    def fresh(depth: int) -> str:
        if dup_names and depth > 0 and used and rng.random() < 0.5:
            return rng.choice(used)
        n = next(x for x in pool if x not in used)
        used.append(n)
        return n

    def mk(depth: int, path: tuple, siblings: set) -> dict:
        name = fresh(depth)
        tries = 0
        while name in siblings and tries < 10:
            name = fresh(depth)
            tries += 1
        if name in siblings:
            name = next(x for x in pool if x not in used)
            used.append(name)
        siblings.add(name)
        p = path + (name,)
        paths.append(p)
        s: Dict[str, Any] = {"name": name}
        r = rng.random()
        if depth < 2 and r < (0.45 if depth == 0 else 0.3) and len(used) < 7:
            par = rng.random() < 0.3
            if par:
                s["parallel"] = True
            sib: set = set()
            s["states"] = [mk(depth + 1, p, sib) for _ in range(rng.choice([2, 2, 3]) if len(used) < 6 else 1)]
            if not par:
                rng.choice(s["states"])["initial"] = True
        elif depth > 0 and r > 0.85:
            s["final"] = True
        if not s.get("final"):
            pid = ".".join(("m",) + p)
            if rng.random() < 0.8:
                s["entry"] = [f"en:{pid}"]
            if rng.random() < 0.8:
                s["exit"] = [f"ex:{pid}"]
            if rng.random() < 0.25:
                s["tags"] = rng.choice([["t1"], ["t1", "t2"]])
            if rng.random() < 0.2:
                s["meta"] = {"k": rng.choice([1, "v", [1, 2]])}
        return s

    top: set = set()
    states = [mk(0, (), top) for _ in range(rng.choice([2, 3, 3]))]
    rng.choice(states)["initial"] = True
    a: Dict[str, Any] = {"id": "m", "context": {"n": 0}, "states": states, "transitions": []}
    by_path = {}

    def index(ss, path):
        for s in ss:
            by_path[path + (s["name"],)] = s
            index(s.get("states") or [], path + (s["name"],))
    index(states, ())
    srcs = [p for p in paths if not by_path[p].get("final")]
    nev = 0
    for p in srcs:
        for _ in range(rng.choice([0, 1, 2, 2])):
            nev += 1
            ev = rng.choice(["E1", "E2", "E3", "E4"])
            t: Dict[str, Any] = {"src": list(p), "event": ev, "actions": [f"tr:{ev}:{nev}"]}
            if rng.random() < 0.12:
                t["internal"] = True
                t["tgt"] = None
            else:
                t["tgt"] = list(rng.choice(paths))
                if rng.random() < 0.15:
                    t["reenter"] = True
            if rng.random() < 0.3:
                t["guard"] = rng.choice(["g1", "g2"])
            a["transitions"].append(t)
    if rich:
        # shorthand `on=` dicts (events disjoint from Transition objects), always, on_done, root properties
        for p in srcs:
            s = by_path[p]
            if rng.random() < 0.3:
                nev += 1
                tgt = rng.choice(paths)
                s["on"] = {"S1": rng.choice(["#m." + ".".join(tgt), {"target": "#m." + ".".join(tgt), "actions": [f"tr:S1:{nev}"]}])}
            # (completion leads OUT of the completed branch: an onDone that lands on a final child of the same state
            #  completes it again and again - a self-feeding chain, which is C13's subject, not this family's)
            away = [t for t in paths if t[:1] != p[:1]]
            if s.get("states") and not s.get("parallel") and away and rng.random() < 0.5:
                nev += 1
                tgt = rng.choice(away)
                s["on_done"] = rng.choice(["#m." + ".".join(tgt), {"target": "#m." + ".".join(tgt), "actions": [f"tr:done:{nev}"]}])
            # at most one eventless transition per machine, leaving its source for good (no settle loops)
            outside = [t for t in paths if t[:len(p)] != p and p[:len(t)] != t and t[:1] != p[:1]]
            if rng.random() < 0.3 and outside and not any(x.get("always") for x in by_path.values()):
                nev += 1
                tgt = rng.choice(outside)
                s["always"] = {"target": "#m." + ".".join(tgt), "guard": "g2", "actions": [f"tr:always:{nev}"]}
        if rng.random() < 0.6:
            nev += 1
            tgt = rng.choice(paths)
            a["root"] = {"on": {"R1": {"target": "#m." + ".".join(tgt), "actions": [f"tr:R1:{nev}"]}},
                         "entry": ["en:m"], "exit": ["ex:m"]}
            if rng.random() < 0.4:
                a["root"]["tags"] = ["rt"]
    a["label"] = f"P-{idx}" + ("-dup" if dup_names else "") + ("-rich" if rich else "")
    return a


def has_duplicate_names(a: dict) -> bool:
    return any(n > 1 for n in _unique_names(a).values())
