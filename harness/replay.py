"""Spec -> code: execute every TLC edge on the real engines and compare."""
from __future__ import annotations

import asyncio
import copy
from collections import deque
from typing import Any, Dict, List, Optional, Tuple

from .pipeline import Built, Edge, state_key
from . import rt
from .rt import TracedAsync, TracedSync, attach, ids, project

from xstate_statemachine import helpers as pure_api  # noqa: E402


def out_tag(v) -> str:
    return "NONE" if v is None else str(v)


def norm_state(s: dict) -> dict:
    return {
        "config": sorted(s["config"]),
        "hist": {k: sorted(v) for k, v in (s.get("hist") or {}).items() if v},
        "status": s["status"],
        "ctx": dict(s.get("ctx") or {}),
        "output": s.get("output", "NONE"),
        "err": (s.get("err") or [])[:1],
    }


def bfs_paths(edges: List[Edge]) -> Dict[str, List[Edge]]:
    """Shortest step path from the initial state of each machine to every state."""
    succ: Dict[str, List[Edge]] = {}
    inits = {}
    for e in edges:
        k = state_key(e.mi, e.frm)
        succ.setdefault(k, []).append(e)
        if e.frm["status"] == "uninitialized":
            inits[e.mi] = k
    paths: Dict[str, List[Edge]] = {}
    for mi, k0 in inits.items():
        paths[k0] = []
        dq = deque([k0])
        while dq:
            k = dq.popleft()
            for e in succ.get(k, []):
                if e.dirty:
                    continue
                k2 = state_key(e.mi, e.to)
                if k2 not in paths:
                    paths[k2] = paths[k] + [e]
                    dq.append(k2)
    return paths


# ---------------------------------------------------------------------------------------
# sync

def _observe(interp, b: Built, err) -> dict:
    p = project(interp, b.ctx_keys)
    p["output"] = out_tag(interp.output)
    p["err"] = err
    return norm_state(p)


def run_sync(b: Built, steps: List[dict]) -> List[Tuple[dict, list]]:
    """Runs the steps on a fresh traced SyncInterpreter; returns (post, out) per step."""
    b.ctl.reset()
    rt.CURRENT["ctl"] = b.ctl
    interp = attach(TracedSync(b.machine, b.ctl), b.ctl, out_tag)
    res = []
    b.ctl.fuel = b.defn["fuel"]
    for st in steps:
        b.ctl.gv = dict(st["gv"])
        b.ctl.faults = set(st.get("faults") or [])
        b.ctl.log = []
        b.ctl.events = 0
        err: list = []
        try:
            if st["op"] == "start":
                interp.start()
            elif st["op"] == "send":
                interp.send(st["ev"])
            elif st["op"] == "batch":
                b.ctl.emit("batch", st["evs"][0], st["evs"][-1])
                interp.send_events(list(st["evs"]))
            elif st["op"] == "can":
                r = interp.can(st["ev"])
                b.ctl.emit("can", "T" if r else "F")
            elif st["op"] == "stop":
                interp.stop()
        except Exception as e:  # the step raised out of the public call
            err = [type(e).__name__]
        except rt.Diverged:
            err = ["Diverged"]
        res.append((_observe(interp, b, err), b.ctl.take()))
        if err == ["Diverged"]:
            break
    try:
        interp.stop()
    except Exception:
        pass
    return res


# ---------------------------------------------------------------------------------------
# async (quiescence granularity)

async def _quiesce(interp, budget: int = 10000) -> bool:
    for _ in range(budget):
        t = interp._event_loop_task
        if t is None or t.done():
            return True
        if interp._event_queue.empty() and not interp._processing:
            return True
        await asyncio.sleep(0)
    return False


async def _run_async(b: Built, steps: List[dict]):
    b.ctl.reset()
    rt.CURRENT["ctl"] = b.ctl
    interp = attach(TracedAsync(b.machine, b.ctl), b.ctl, out_tag)
    res = []
    b.ctl.fuel = b.defn["fuel"]
    for st in steps:
        b.ctl.gv = dict(st["gv"])
        b.ctl.faults = set(st.get("faults") or [])
        b.ctl.log = []
        b.ctl.events = 0
        err: list = []
        try:
            if st["op"] == "start":
                await interp.start()
            elif st["op"] == "send":
                await interp.send(st["ev"])
            elif st["op"] == "batch":
                b.ctl.emit("batch", st["evs"][0], st["evs"][-1])
                await interp.send_events(list(st["evs"]))
            elif st["op"] == "can":
                r = interp.can(st["ev"])
                b.ctl.emit("can", "T" if r else "F")
            elif st["op"] == "stop":
                await interp.stop()
        except Exception as e:
            err = [type(e).__name__]
        ok = await _quiesce(interp)
        if not ok:
            err = ["NoQuiescence"]
        t = interp._event_loop_task
        if t is not None and t.done() and not t.cancelled() and isinstance(t.exception(), rt.Diverged):
            err = ["Diverged"]
        res.append((_observe(interp, b, err), b.ctl.take()))
        if err == ["Diverged"]:
            break
    try:
        await interp.stop()
    except Exception:
        pass
    return res


def run_async(b: Built, steps: List[dict]):
    loop = asyncio.new_event_loop()
    try:
        return loop.run_until_complete(_run_async(b, steps))
    finally:
        loop.close()


# ---------------------------------------------------------------------------------------
# pure API

def run_pure(b: Built, steps: List[dict]):
    """Threads PureSnapshots through initial_transition/transition."""
    b.ctl.reset()
    snap = None
    res = []
    for st in steps:
        b.ctl.gv = dict(st["gv"])
        err: list = []
        recorded = []
        try:
            if st["op"] == "start":
                snap, recorded = pure_api.initial_transition(b.machine)
            elif st["op"] == "send":
                snap, recorded = pure_api.transition(b.machine, snap, st["ev"])
        except Exception as e:
            err = [type(e).__name__]
        post = {
            "config": sorted(snap.configuration) if snap else [],
            "hist": {},
            "status": {"active": "running"}.get(snap.status, snap.status) if snap else "uninitialized",
            "ctx": {k: snap.context.get(k) for k in b.ctx_keys} if snap else {},
            "output": out_tag(snap.output) if snap else "NONE",
            "err": err,
        }
        res.append((norm_state(post), [["rec", a.type, "", [], []] for a in recorded]))
    return res


RUNNERS = {"sync": run_sync, "async": run_async, "pure": run_pure}


def step_of(e: Edge) -> dict:
    return e.step


class Mismatch:
    def __init__(self, edge: Edge, engine: str, post: dict, out: list, what: str) -> None:
        self.edge, self.engine, self.post, self.out, self.what = edge, engine, post, out, what


def compare(edge: Edge, post: dict, out: list, engine: str) -> Optional[str]:
    want = norm_state(edge.to)
    if want["err"] == ["Diverged"] or post["err"] == ["Diverged"]:
        # non-termination (cut off at the same event count on both sides): only the verdict compares
        return None if want["err"] == post["err"] else "state.err"
    if engine == "pure":
        want = dict(want, hist={})
        post = dict(post, hist={})
        wout = [o for o in edge.out if o[0] == "rec"]
    else:
        wout = edge.out
    for k in ("config", "status", "hist", "ctx", "output", "err"):
        if want[k] != post[k]:
            return f"state.{k}"
    if wout != out:
        return "out"
    return None


def replay_edges(built: List[Built], edges: List[Edge], engine: str) -> Tuple[int, List[Mismatch]]:
    """Replays every edge (fresh interpreter, BFS path, then the step)."""
    paths = bfs_paths(edges)
    run = RUNNERS[engine]
    done = 0
    bad: List[Mismatch] = []
    for e in edges:
        k = state_key(e.mi, e.frm)
        if k not in paths:
            continue  # source only reachable through a failed step
        b = built[e.mi - 1]
        steps = [p.step for p in paths[k]] + [e.step]
        res = run(b, steps)
        post, out = res[-1]
        done += 1
        what = compare(e, post, out, engine)
        if what:
            bad.append(Mismatch(e, engine, post, out, what))
    return done, bad
