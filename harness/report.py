"""Verdict policy (DESIGN section 6) and evidence files."""
from __future__ import annotations

import json
import os
import time
from typing import Any, Dict, List, Optional

from . import findings
from .core_check import write_replay, violation_signature

ROOT = os.path.dirname(os.path.dirname(os.path.abspath(__file__)))


def finalize(prop: str, tier: str, seed: int, t0: float, *, violations: List[dict], coverage: Dict[str, Any],
             assumptions: List[str], errors: List[str], level: str = "model_checking") -> int:
    """Classifies violations, prints the verdict lines, writes the evidence file, returns exit code."""
    kf = findings.load()
    known: Dict[str, int] = {}
    known_desc: Dict[str, str] = {}
    fresh: List[dict] = []
    seen = set()
    for v in violations:
        f = findings.classify(prop, v, kf)
        if f is not None:
            known[f["id"]] = known.get(f["id"], 0) + 1
            known_desc[f["id"]] = f["summary"]
            continue
        sig = violation_signature(v)
        if sig in seen:
            continue
        seen.add(sig)
        fresh.append(v)
    for fid, n in sorted(known.items()):
        print(f"KNOWN-FINDING: property={prop} {fid}: {known_desc[fid]} ({n} observed steps)")
    shown = 0
    for v in fresh:
        if shown < 5:
            path = write_replay(v)
            print(f"VIOLATION property={prop} replay={path}")
            print(f"  clauses={v['clauses']} engine={v['engine']} machine={v['label']} last_step={v['steps'][-1] if v['steps'] else None}")
        shown += 1
    if shown > 5:
        print(f"  ... {shown - 5} further distinct violating steps not written out")
    for e in errors[:10]:
        print(f"MACHINERY: {e}")
    cov = dict(coverage)
    cov["known_findings_hit"] = known
    cov["machinery_errors"] = errors[:10]
    from . import core_check as _cc
    note = _cc.budget_note()
    if note["time_budget_s"] is not None:
        cov.update(note)
        if note["units_not_run_time_budget"]:
            cov["exhaustive"] = False
            print(f"NOTE: time budget {note['time_budget_s']:.0f}s reached: {note['units_not_run_time_budget']} of "
                  f"{note['units_total']} work units were not started (VERIF_BUDGET_S=0 lifts the budget)")
    ev = {
        "property_id": prop, "tier": tier, "seed": seed, "level": level, "coverage": cov,
        "assumptions": assumptions, "wall_s": round(time.time() - t0, 2), "violations": len(fresh),
    }
    # (runs against a scratch copy of the repository - seeded changes - must not overwrite the evidence of /repo)
    evdir = os.environ.get("VERIF_EVIDENCE_DIR") or os.path.join(ROOT, "evidence")
    os.makedirs(evdir, exist_ok=True)
    with open(os.path.join(evdir, f"{prop}.json"), "w") as f:
        json.dump(ev, f, indent=1, sort_keys=True)
    if fresh:
        return 1
    if errors:
        return 2
    print(f"OK property={prop} tier={tier} seed={seed} wall={ev['wall_s']}s")
    return 0
