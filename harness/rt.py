"""Runtime side of the harness: instrumented logic, recorder, traced engines.

Nothing here changes the repository: observation goes through the public plugin
API, `subscribe()`, and subclasses of the two interpreters that log a handful of
internal calls (send, _select_transitions, _cancel_state_tasks,
_schedule_state_tasks, _after_timer) before delegating to the real method.
"""
from __future__ import annotations

import os
import sys

sys.dont_write_bytecode = True
REPO_SRC = os.environ.get("VERIF_REPO_SRC", "/repo/src")
if REPO_SRC not in sys.path:
    sys.path.insert(0, REPO_SRC)

import logging

# the library logs profusely; only ERROR records of the async run loop are of interest
# (an exception while processing one event is logged there and nowhere else observable)
CURRENT = {"ctl": None}


class _LoopErrorHandler(logging.Handler):
    def emit(self, record):  # noqa: D401
        ctl = CURRENT["ctl"]
        if ctl is None or not isinstance(record.msg, str):
            return
        msg = record.msg
        if "Error processing event" in msg:
            exc = record.exc_info[0].__name__ if record.exc_info and record.exc_info[0] else "?"
            ctl.emit("loop_error", exc)
        elif "queued events in a single macrostep" in msg:
            ctl.emit("cut_drain")
        elif "chained self-raised events" in msg:
            ctl.emit("cut_raise")
        elif "microsteps while settling" in msg:
            ctl.emit("cut_always")
        elif "Nested action expansion exceeded" in msg:
            ctl.emit("cut_actions")


_lg = logging.getLogger("xstate_statemachine")
_lg.setLevel(logging.ERROR)
_lg.propagate = False
_lg.addHandler(_LoopErrorHandler())

from typing import Any, Dict, List, Optional

from xstate_statemachine import MachineLogic, create_machine  # noqa: E402
from xstate_statemachine.interpreter import Interpreter  # noqa: E402
from xstate_statemachine.sync_interpreter import SyncInterpreter  # noqa: E402

INIT_EVENT = "___xstate_statemachine_init___"


class Diverged(BaseException):
    """Raised from the recorder hook when one public step dequeues more than `fuel` events.
    BaseException: the one thing the plugin error containment (except Exception) lets through."""


class Ctl:
    """Per-machine control block shared by all logic closures."""

    def __init__(self) -> None:
        self.gv: Dict[str, str] = {}
        self.log: List[list] = []
        self.tnames: Dict[int, str] = {}
        self.faults: set = set()  # user actions that raise when called (C07 fault plan)
        self.calls = 0
        self.fuel = 10 ** 9
        self.events = 0
        self.busy_until = 0
        self.pending: list = []       # (service name, invoke event type, future) of driver-controlled services
        self.live_timers: list = []   # (owner, event type, due ms, task) recorded by the traced async engine

    def reset(self) -> None:
        self.faults = set()
        self.gv = {}
        self.log = []
        self.calls = 0

    def emit(self, k: str, a: str = "", b: str = "", c=(), d=()) -> None:
        self.log.append([k, a, b, sorted(c), sorted(d)])

    def take(self) -> List[list]:
        out, self.log = self.log, []
        return canon_rearm(out)


def canon_rearm(log: List[list]) -> List[list]:
    """The rollback path re-arms exited states while iterating a set; the block of
    (rearm, arm*) groups is put into state-id order so that logs compare."""
    res: List[list] = []
    i = 0
    while i < len(log):
        if log[i][0] != "rearm":
            res.append(log[i])
            i += 1
            continue
        groups = []
        while i < len(log) and log[i][0] == "rearm":
            g = [log[i]]
            i += 1
            while i < len(log) and log[i][0] == "arm":
                g.append(log[i])
                i += 1
            groups.append(g)
        for g in sorted(groups, key=lambda g: g[0][1]):
            res.extend(g)
    return res


def make_logic(ctl: Ctl, actions: List[str], guards: List[str], services=None, delays=None) -> MachineLogic:
    def mk_action(name: str):
        def marker(interp, ctx, event, action_def):
            ctl.calls += 1
            if action_def.type in ctl.faults:
                raise RuntimeError(f"planned fault in {action_def.type}")
            ctl.emit("act", action_def.type, event.type)
        marker.__name__ = "marker_" + "".join(ch if ch.isalnum() else "_" for ch in name)
        return marker

    def mk_guard(name: str):
        def guard(ctx, event, params=None):
            ctl.calls += 1
            key = name
            if isinstance(params, dict) and isinstance(params.get("k"), str):
                key = f"{name}:{params['k']}"   # parameterised guard: the answer depends on params
            v = ctl.gv.get(key, "F")
            if v == "R":
                raise RuntimeError(f"guard {key} raises")
            return v == "T"
        return guard

    def mk_slow(name: str):
        ms = int(name.split(":")[1])

        async def slow(interp, ctx, event, action_def):
            import asyncio as _aio

            ctl.emit("act", action_def.type, event.type)
            ctl.busy_until = _aio.get_event_loop().time() * 1000 + ms
            try:
                await _aio.sleep(ms / 1000.0)
            finally:
                ctl.busy_until = 0
        return slow

    def mk_service(name: str):
        async def svc(interp, ctx, event):
            import asyncio as _aio

            fut = _aio.get_event_loop().create_future()
            ctl.pending.append((name, event.type, fut))
            ctl.emit("svc_called", name, event.type)
            try:
                return await fut
            finally:
                ctl.pending[:] = [p for p in ctl.pending if p[2] is not fut]
        return svc

    def mk_plain(name: str, fails: bool):
        # a plain (non-coroutine) callable: it has returned / raised by the time its task first runs
        def plain(interp, ctx, event):
            ctl.emit("svc_called", name, event.type)
            if fails:
                raise RuntimeError("planned failure of plain service " + name)
            return "ok:" + name
        return plain

    services = dict(services or {})
    for sname in list(services):
        if services[sname] == "driver":
            services[sname] = mk_service(sname)
        elif services[sname] in ("ok", "fail"):
            services[sname] = mk_plain(sname, services[sname] == "fail")

    return MachineLogic(
        actions={a: (mk_slow(a) if a.startswith("slow:") else mk_action(a)) for a in actions},
        guards={g: mk_guard(g) for g in guards},
        services=dict(services or {}),
        delays=dict(delays or {}),
    )


def ids(nodes) -> List[str]:
    return sorted(n.id for n in nodes)


class Recorder:
    """Duck-typed plugin; every hook appends one log entry."""

    def __init__(self, ctl: Ctl, out_tag=None) -> None:
        self.ctl = ctl
        self.out_tag = out_tag or (lambda v: "NONE" if v is None else str(v))

    def on_interpreter_start(self, interp):
        self.ctl.emit("interp_start")

    def on_interpreter_stop(self, interp):
        self.ctl.emit("interp_stop")

    def on_event_received(self, interp, event):
        self.ctl.events += 1
        if self.ctl.events > self.ctl.fuel:
            raise Diverged()
        self.ctl.emit("event", event.type)

    def on_transition(self, interp, frm, to, transition):
        name = self.ctl.tnames.get(id(transition))
        if name is None:
            name = "init" if getattr(transition, "event", None) == INIT_EVENT else "?"
        if name == "init":
            kind = "start"
        elif frm is to:
            kind = "internal"
        else:
            kind = "external"
        self.ctl.emit("on_transition", kind, name, ids(to), ids(to) if kind == "internal" else ids(frm))

    def on_action_execute(self, interp, action_def):
        self.ctl.emit("ax", action_def.type)

    def on_action_error(self, interp, action_def, exc):
        self.ctl.emit("action_error", action_def.type)

    def on_guard_evaluated(self, interp, name, event, result):
        self.ctl.emit("guard", name, "T" if result else "F")

    def on_service_start(self, interp, invocation):
        self.ctl.emit("svc_start", invocation.id)

    def on_service_done(self, interp, invocation, result):
        self.ctl.emit("svc_done", invocation.id)

    def on_service_error(self, interp, invocation, error):
        self.ctl.emit("svc_error", invocation.id)

    def on_done(self, interp, output):
        self.ctl.emit("done", self.out_tag(output))

    def on_error(self, interp, error):
        self.ctl.emit("error", type(error).__name__)


def _evtype(e) -> str:
    if isinstance(e, str):
        return e
    if isinstance(e, dict):
        return e.get("type", "UnnamedEvent")
    return getattr(e, "type", "?")


_CALLERS = {
    "_process_event": "process",
    "_process_transient_transitions": "settle",
    "_settle_transient_transitions": "settle",
    "can": "can",
}


class _TraceMixin:
    _ctl: Ctl

    def _select_transitions(self, event):
        who = _CALLERS.get(sys._getframe(1).f_code.co_name, "other")
        cfg = ids(self._active_state_nodes)
        sel = super()._select_transitions(event)
        self._ctl.emit("select", event.type, who, [self._ctl.tnames.get(id(t), "?") for t in sel], cfg)
        return sel

    def _schedule_state_tasks(self, state):
        # called from _enter_states on entry, from the rollback path to re-arm exited states
        kind = "sched" if sys._getframe(1).f_code.co_name == "_enter_states" else "rearm"
        self._ctl.emit(kind, state.id)
        return super()._schedule_state_tasks(state)

    def _invoke_service(self, invocation, service, owner_id):
        self._ctl.emit("invoke", owner_id, invocation.id)
        return super()._invoke_service(invocation, service, owner_id)

    def _after_timer(self, delay_sec, event, owner_id):
        self._ctl.emit("arm", owner_id, event.type)
        vctl = CURRENT.get("vctl")
        if vctl is not None:       # sync engine under virtual time: label the timer thread about to be started
            vctl.pending_info = (owner_id, event.type)
        r = super()._after_timer(delay_sec, event, owner_id)
        tm = getattr(self, "task_manager", None)
        if tm is not None:
            import asyncio as _aio

            due = round(_aio.get_event_loop().time() * 1000 + delay_sec * 1000)
            for t in tm.get_tasks_by_owner(owner_id):
                if not any(t is x[3] for x in self._ctl.live_timers):
                    self._ctl.live_timers.append((owner_id, event.type, due, t))
        return r


class _NullCtl(Ctl):
    def emit(self, *a, **k) -> None:  # a restored interpreter before the harness attaches its Ctl
        return None


class TracedSync(_TraceMixin, SyncInterpreter):
    def __init__(self, machine, ctl: Optional[Ctl] = None, **kw):
        self._ctl = ctl if ctl is not None else _NullCtl()
        super().__init__(machine, **kw)

    def send(self, event_or_type, **payload):
        self._ctl.emit("enq", _evtype(event_or_type))
        return super().send(event_or_type, **payload)

    def _cancel_state_tasks(self, state):
        self._ctl.emit("cancel", state.id)
        return super()._cancel_state_tasks(state)


class TracedAsync(_TraceMixin, Interpreter):
    def __init__(self, machine, ctl: Optional[Ctl] = None, **kw):
        self._ctl = ctl if ctl is not None else _NullCtl()
        super().__init__(machine, **kw)

    async def send(self, event_or_type, **payload):
        self._ctl.emit("enq", _evtype(event_or_type))
        return await super().send(event_or_type, **payload)

    async def _cancel_state_tasks(self, state):
        self._ctl.emit("cancel", state.id)
        return await super()._cancel_state_tasks(state)


class BadObserver:
    """A plugin whose every hook raises (C07 (b)): registered BEFORE the recorder."""

    def __getattr__(self, name):
        if name.startswith("on_"):
            def boom(*a, **k):
                raise RuntimeError(f"planned observer fault in {name}")
            return boom
        raise AttributeError(name)


class TinyPlugin:
    """A duck-typed plugin that implements a single hook (every other hook is simply absent)."""

    def on_transition(self, *a, **k):
        return None


OBSERVER_FAULTS = {"on": False}


def attach(interp, ctl: Ctl, out_tag=None):
    if OBSERVER_FAULTS["on"]:
        def bad_sub(i):
            raise RuntimeError("planned subscriber fault")

        def bad_listener(ev):
            raise RuntimeError("planned listener fault")

        interp.use(BadObserver())
        interp.use(TinyPlugin())
        interp.subscribe(bad_sub)
        interp.on("*", bad_listener)
    interp.use(Recorder(ctl, out_tag))
    interp.subscribe(lambda i: ctl.emit("subscriber", "", "", ids(i._active_state_nodes)))
    return interp


def project(interp, ctx_keys=()) -> dict:
    """The abstract state of an interpreter at a quiescent point."""
    return {
        "config": ids(interp._active_state_nodes),
        "hist": {k: sorted(n.id for n in v) for k, v in interp._history.items()},
        "status": interp.status,
        "ctx": {k: interp.context.get(k) for k in ctx_keys} if isinstance(interp.context, dict) else {},
    }
