"""Scheduling layer binding: SCSched.tla edges replayed on the real async Interpreter under the
virtual-time loop (harness/vloop.py).  One driver step = one spec action; after each step every task
has run until it blocks, and the abstract state (configuration, status, queue length, virtual now,
live timers with their deadlines, consumer busy-until) is compared with the edge's post-state."""
from __future__ import annotations

import asyncio
import json
import os
from collections import deque
from typing import Any, Dict, List, Optional, Tuple

from . import rt, tla
from .pipeline import Built, canon_out
from .vloop import VLoop

SCHED_CFG = """SPECIFICATION Spec
CONSTANTS
  EngineS = "{engine}"
  MaxNow = {maxnow}
  WaitSteps = {waits}
  MaxDepth = {depth}
  PropSetS = {props}
VIEW View
CONSTRAINT Horizon
ACTION_CONSTRAINT EmitS
CHECK_DEADLOCK FALSE
"""


def canon_sstate(s: dict) -> dict:
    hist = s.get("hist") or {}
    if isinstance(hist, list):
        hist = {}
    ctx = s.get("ctx") or {}
    if isinstance(ctx, list):
        ctx = {}
    return {"config": sorted(s.get("config") or []), "hist": {k: sorted(v) for k, v in hist.items() if v},
            "status": s["status"], "ctx": dict(ctx), "output": s.get("output", "NONE"),
            "queue": list(s.get("queue") or []), "now": s.get("now", 0), "busy": s.get("busy", 0),
            "timers": sorted([list(t) for t in (s.get("timers") or [])]),
            "svcs": sorted([list(t) for t in (s.get("svcs") or [])]),
            # identity only (what a suspended macrostep still has to do): never compared with the engine
            "susp": [sorted(x) for x in (s.get("susp") or [])], "pend": [list(x) for x in (s.get("pend") or [])]}


class SEdge:
    __slots__ = ("mi", "frm", "step", "to", "out", "prop")

    def __init__(self, o: dict) -> None:
        self.mi = o["mi"]
        self.frm = canon_sstate(o["from"])
        self.to = canon_sstate(o["to"])
        st = o["step"]
        gv = st.get("gv") or {}
        self.step = {"op": st["op"], "ev": st.get("ev", ""), "gv": {} if isinstance(gv, list) else dict(gv), "dt": st.get("dt", 0)}
        self.out = canon_out(o["out"])
        self.prop = {k: sorted(v or []) for k, v in (o.get("prop") or {}).items()}


def model_check_sched(built: List[Built], workdir: str, *, maxnow=200, waits=(30,), depth=7, props=("C08", "C01"),
                      workers=4, timeout=1700, engine="async") -> Tuple[tla.TLCResult, List[SEdge]]:
    os.makedirs(workdir, exist_ok=True)
    tla.write_batch(os.path.join(workdir, "Batch.tla"), [b.defn for b in built])
    cfg = SCHED_CFG.format(engine=engine, maxnow=maxnow, waits="{" + ", ".join(str(w) for w in waits) + "}", depth=depth,
                           props="{" + ", ".join(f'"{p}"' for p in props) + "}")
    edges: List[SEdge] = []
    res = tla.run_tlc("SCSched", cfg, workdir, workers=workers, timeout=timeout, json_sink=lambda o: edges.append(SEdge(o)))
    return res, edges


def skey(mi: int, s: dict) -> str:
    return json.dumps([mi, s], sort_keys=True)


def bfs(edges: List[SEdge]) -> Dict[str, List[SEdge]]:
    succ: Dict[str, List[SEdge]] = {}
    inits = {}
    for e in edges:
        k = skey(e.mi, e.frm)
        succ.setdefault(k, []).append(e)
        if e.frm["status"] == "uninitialized":
            inits[e.mi] = k
    paths: Dict[str, List[SEdge]] = {}
    for _mi, k0 in inits.items():
        paths[k0] = []
        dq = deque([k0])
        while dq:
            k = dq.popleft()
            for e in succ.get(k, []):
                k2 = skey(e.mi, e.to)
                if k2 not in paths:
                    paths[k2] = paths[k] + [e]
                    dq.append(k2)
    return paths


def _inv_owner(b: Built, inv: str) -> str:
    for s, invs in b.defn["invokes"].items():
        for i in invs:
            if i["id"] == inv:
                return s
    return "?"


def observe(interp, b: Built, loop: VLoop) -> dict:
    live = sorted([[o, k, d] for (o, k, d, t) in b.ctl.live_timers if not t.done()])
    p = rt.project(interp, b.ctx_keys)
    return {"config": p["config"], "hist": {k: v for k, v in p["hist"].items() if v}, "status": p["status"],
            "ctx": p["ctx"], "output": "NONE" if interp.output is None else str(interp.output),
            "queue": [getattr(e, "type", "?") for e in list(interp._event_queue._queue)], "now": round(loop.time() * 1000),
            "busy": round(b.ctl.busy_until) if b.ctl.busy_until else 0, "timers": live,
            "svcs": sorted([[_inv_owner(b, ev[len("invoke."):]), ev[len("invoke."):]] for (_n, ev, f) in b.ctl.pending if not f.done()])}


VISIBLE = ("act", "on_transition", "event", "svc_done", "svc_error", "error")


def visible(log: list) -> list:
    return [o for o in log if o[0] in VISIBLE]


def run_sched(b: Built, steps: List[dict]) -> List[Tuple[dict, list]]:
    """Executes driver steps on a fresh traced async interpreter under a fresh virtual loop."""
    loop = VLoop()
    asyncio.set_event_loop(loop)
    res = []
    try:
        b.ctl.reset()
        b.ctl.live_timers = []
        b.ctl.pending = []
        b.ctl.busy_until = 0
        rt.CURRENT["ctl"] = b.ctl
        interp = rt.attach(rt.TracedAsync(b.machine, b.ctl), b.ctl)
        b.ctl.fuel = b.defn["fuel"]
        for st in steps:
            b.ctl.gv = dict(st.get("gv") or {})
            b.ctl.log = []
            b.ctl.events = 0
            op = st["op"]
            try:
                if op == "start":
                    loop.run_coro(interp.start())
                elif op == "send":
                    loop.run_coro(interp.send(st["ev"]))
                elif op == "wait":
                    loop.advance_to(loop.time() + st["dt"] / 1000.0)
                elif op == "advance":
                    nd = loop.next_deadline()
                    if nd is not None:
                        loop.advance_to(nd)
                elif op == "stop":
                    loop.run_coro(interp.stop())
                elif op in ("resolve", "reject"):
                    want = "invoke." + st["ev"]
                    p = next((p for p in b.ctl.pending if p[1] == want and not p[2].done()), None)
                    if p is None:
                        b.ctl.emit("driver_error", "no pending service " + st["ev"])
                    elif op == "resolve":
                        p[2].set_result("ok:" + st["ev"])
                    else:
                        p[2].set_exception(RuntimeError("planned service failure " + st["ev"]))
                    loop.run_idle()
            except Exception as ex:  # pragma: no cover - surfaced as a mismatch
                b.ctl.emit("driver_error", type(ex).__name__)
            res.append((observe(interp, b, loop), b.ctl.take()))
        try:
            loop.run_coro(interp.stop())
        except Exception:
            pass
    finally:
        try:
            for t in asyncio.all_tasks(loop):
                t.cancel()
            loop.run_idle()
        except Exception:
            pass
        asyncio.set_event_loop(None)
        loop.close()
    return res


def strip_slow(cfg: dict) -> dict:
    """The same machine without its suspending (coroutine) actions - the sync engine cannot run them."""
    import copy
    c = copy.deepcopy(cfg)

    def walk(n):
        on = n.get("on")
        if isinstance(on, dict):
            for ev in list(on):
                t = on[ev]
                acts = t.get("actions") if isinstance(t, dict) else None
                if isinstance(acts, list) and any(isinstance(a, str) and a.startswith("slow:") for a in acts):
                    del on[ev]
        for k in ("entry", "exit"):
            if isinstance(n.get(k), list):
                n[k] = [a for a in n[k] if not (isinstance(a, str) and a.startswith("slow:"))]
        for ch in (n.get("states") or {}).values():
            walk(ch)
    walk(c)
    return c


def run_sched_sync(b: Built, steps: List[dict]) -> List[Tuple[dict, list]]:
    """Driver steps on a fresh traced SyncInterpreter whose timer threads run under virtual time
    (harness/vthreads.py).  One driver step = one spec action of SCSched with EngineS = "sync"."""
    from . import vthreads
    vctl = vthreads.Controller()
    res = []
    with vthreads.patched(vctl):
        b.ctl.reset()
        rt.CURRENT["ctl"] = b.ctl
        rt.CURRENT["vctl"] = vctl
        interp = rt.attach(rt.TracedSync(b.machine, b.ctl), b.ctl)
        b.ctl.fuel = b.defn["fuel"]
        try:
            for st in steps:
                b.ctl.gv = dict(st.get("gv") or {})
                b.ctl.log = []
                b.ctl.events = 0
                op = st["op"]
                try:
                    if op == "start":
                        interp.start()
                    elif op == "send":
                        interp.send(st["ev"])
                    elif op == "wait":
                        vctl.advance_to(vctl.now + st["dt"])
                    elif op == "advance":
                        nd = vctl.next_deadline()
                        if nd is not None:
                            vctl.advance_to(nd)
                    elif op == "stop":
                        interp.stop()
                    else:
                        b.ctl.emit("driver_error", "op not available on the sync engine: " + op)
                except rt.Diverged:
                    b.ctl.emit("error", "Diverged")
                except Exception as ex:  # noqa: BLE001 - surfaced as a mismatch
                    b.ctl.emit("driver_error", type(ex).__name__)
                vctl.settle()
                p = rt.project(interp, b.ctx_keys)
                live = sorted([[w["info"][0], w["info"][1], round(w["due"])] for w in vctl.live() if w["info"]])
                obs = {"config": p["config"], "hist": {k: v for k, v in p["hist"].items() if v}, "status": p["status"], "ctx": p["ctx"],
                       "output": "NONE" if interp.output is None else str(interp.output),
                       "queue": [getattr(e, "type", "?") for e in list(interp._event_queue)], "now": round(vctl.now), "busy": 0,
                       "timers": live, "svcs": []}
                res.append((obs, b.ctl.take()))
            try:
                interp.stop()
            except Exception:  # noqa: BLE001
                pass
        finally:
            vctl.drain()
            rt.CURRENT["vctl"] = None
    return res


def compare(e: SEdge, post: dict, log: list) -> Optional[str]:
    for k in ("config", "status", "hist", "ctx", "output", "queue", "now", "busy", "timers", "svcs"):
        if e.to[k] != post[k]:
            return f"state.{k}"
    if visible(e.out) != visible(log):
        return "out"
    return None
