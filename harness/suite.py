"""The repository's own test suite as a trace source: run it with the recording plugin
(harness/suite_trace.py) and let TLC evaluate Prop C01 (Legal) on every configuration a subscriber was shown
(spec/SuiteLegal.tla)."""
from __future__ import annotations

import json
import os
import subprocess
import sys
from typing import Any, Dict, List, Tuple

from . import core_check, tla
from .rt import REPO_SRC
from .tla import Rec


def run_suite_traces(timeout: int = 3000) -> Tuple[Dict[str, Any], List[dict], List[str]]:
    """Returns (coverage, violations, machinery errors)."""
    wd = tla.scratch_dir("verif-suite-")
    cov: Dict[str, Any] = {"suite_machines": 0, "suite_configurations": 0, "suite_result": ""}
    viols: List[dict] = []
    errs: List[str] = []
    try:
        out = os.path.join(wd, "obs.json")
        repo = os.path.dirname(REPO_SRC)
        env = dict(os.environ, VERIF_SUITE_TRACE=out, PYTHONPATH=core_check.ROOT, PYTHONDONTWRITEBYTECODE="1")
        p = subprocess.run([sys.executable, "-m", "pytest", "-p", "harness.suite_trace", "-q", "-p", "no:cacheprovider", "--timeout=900", "-q",
                            ], cwd=repo, capture_output=True, text=True, timeout=timeout, env=env)
        tail = [ln for ln in (p.stdout or "").splitlines() if " passed" in ln or " failed" in ln][-1:] or [""]
        cov["suite_result"] = tail[0][:120]
        if not os.path.exists(out):
            errs.append("suite trace file missing: " + tail[0][:200])
            return cov, viols, errs
        with open(out) as f:
            ms = json.load(f)
        cov["suite_machines"] = len(ms)
        cov["suite_configurations"] = sum(len(m["obs"]) for m in ms)
        if not ms:
            return cov, viols, errs
        defs, obs = [], []
        for m in ms:
            t = m["tree"]
            defs.append(Rec(root=t["root"], states=set(t["states"]), parent=t["parent"], kind=t["kind"], children=t["children"]))
            obs.append([Rec(config=o["config"], status=o["status"]) for o in m["obs"]])
        td = os.path.join(wd, "tlc")
        os.makedirs(td)
        tla.write_batch(os.path.join(td, "Batch.tla"), defs)
        with open(os.path.join(td, "SuiteObs.tla"), "w") as f:
            f.write("---- MODULE SuiteObs ----\nEXTENDS TLC\nObserved == <<\n" + ",\n".join(tla.to_tla(o) for o in obs) + "\n>>\n====\n")
        res = tla.run_tlc("SuiteLegal", "SPECIFICATION SSpec\nINVARIANT Report\nCHECK_DEADLOCK FALSE\n", td, workers=4)
        if res.returncode != 0 or res.distinct_states < cov["suite_configurations"]:
            errs.append(f"TLC on suite traces: rc={res.returncode} states={res.distinct_states} " + "; ".join(res.errors[:2]))
        for o in res.json_lines:
            m = ms[o["mi"] - 1]
            viols.append({"property": "C01", "clauses": ["illegal_configuration_shown_to_a_subscriber_in_the_repo_test_suite"], "engine": "suite",
                          "label": "suite:" + m["tree"]["root"], "family": "suite", "config": {"tree": m["tree"]}, "actions": [], "guards": [],
                          "missing": [], "steps": [{"op": "observed", "config": o["config"], "status": o["status"]}], "out": [],
                          "source": "suite-trace", "observed_post": {"config": o["config"], "status": o["status"]}, "defn": {}})
    except subprocess.TimeoutExpired:
        errs.append("repository test suite timed out")
    finally:
        tla.rm(wd)
    return cov, viols, errs
