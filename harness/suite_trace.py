"""pytest plugin (not part of the repository): records, for every interpreter the repository's OWN test
suite creates, the configurations its subscribers are shown, together with the state tree of the machine.

    cd /repo && VERIF_SUITE_TRACE=<out.json> PYTHONPATH=/verif /venv/bin/python -m pytest -p harness.suite_trace ...

The recorded configurations are validated by TLC against Prop C01 (spec/SuiteLegal.tla): existing
functional tests become a trace source for the specification's invariant without being edited.
"""
from __future__ import annotations

import json
import os

_REG = {}


def _tree(machine):
    nodes = []

    def walk(n):
        nodes.append(n)
        for c in n.states.values():
            walk(c)
    walk(machine)
    return {"root": machine.id, "states": [n.id for n in nodes],
            "parent": {n.id: (n.parent.id if n.parent else "NONE") for n in nodes},
            "kind": {n.id: n.type for n in nodes},
            "children": {n.id: [c.id for c in n.states.values()] for n in nodes}}


def _patch(mod_name: str) -> bool:
    try:
        mod = __import__(mod_name, fromlist=["BaseInterpreter"])
    except Exception:  # noqa: BLE001
        return False
    cls = mod.BaseInterpreter
    if getattr(cls, "_verif_traced", False):
        return True
    orig = cls.__init__

    def init(self, machine, *a, **k):
        orig(self, machine, *a, **k)
        try:
            rec = _REG.get(id(machine))
            if rec is None:
                rec = _REG[id(machine)] = {"machine": machine, "obs": set()}

            def cb(i, _rec=rec):
                try:
                    _rec["obs"].add((tuple(sorted(n.id for n in i._active_state_nodes)), str(i.status)))
                except Exception:  # noqa: BLE001
                    pass
            self.subscribe(cb)
        except Exception:  # noqa: BLE001
            pass

    cls.__init__ = init
    cls._verif_traced = True
    return True


def pytest_configure(config):
    for name in ("src.xstate_statemachine.base_interpreter", "xstate_statemachine.base_interpreter"):
        _patch(name)


def pytest_sessionfinish(session, exitstatus):
    out = os.environ.get("VERIF_SUITE_TRACE")
    if not out:
        return
    machines = []
    for rec in _REG.values():
        try:
            t = _tree(rec["machine"])
        except Exception:  # noqa: BLE001
            continue
        obs = [{"config": list(c), "status": s} for (c, s) in sorted(rec["obs"])]
        if obs:
            machines.append({"tree": t, "obs": obs})
    with open(out, "w") as f:
        json.dump(machines, f)
