"""TLA+ literal serialisation and TLC invocation."""
from __future__ import annotations

import json
import os
import re
import shutil
import subprocess
import tempfile
import time
from typing import Any, Dict, Iterable, List, Optional

JAR = "/opt/veriftools/tla/tla2tools.jar"
DEPS = "/opt/veriftools/tla/CommunityModules-deps.jar"
SPEC_DIR = os.path.join(os.path.dirname(os.path.dirname(os.path.abspath(__file__))), "spec")

_IDENT = re.compile(r"^[A-Za-z][A-Za-z0-9_]*$")


class Rec(dict):
    """A dict that is always rendered as a TLA+ record [k |-> v]."""


def tla_str(s: str) -> str:
    return '"' + s.replace("\\", "\\\\").replace('"', '\\"') + '"'


def to_tla(v: Any) -> str:
    if isinstance(v, bool):
        return "TRUE" if v else "FALSE"
    if isinstance(v, int):
        return str(v)
    if isinstance(v, str):
        return tla_str(v)
    if isinstance(v, (list, tuple)):
        return "<<" + ", ".join(to_tla(x) for x in v) + ">>"
    if isinstance(v, (set, frozenset)):
        return "{" + ", ".join(to_tla(x) for x in sorted(v, key=lambda x: (str(type(x)), x))) + "}"
    if isinstance(v, dict):
        if not v:
            return "<<>>"
        if isinstance(v, Rec) or all(isinstance(k, str) and _IDENT.match(k) for k in v):
            return "[" + ", ".join(f"{k} |-> {to_tla(x)}" for k, x in v.items()) + "]"
        return "(" + " @@ ".join(f"{to_tla(k)} :> {to_tla(x)}" for k, x in v.items()) + ")"
    if v is None:
        return '"NONE"'
    raise TypeError(f"cannot render {type(v)} as TLA+")


def write_batch(path: str, machines: List[dict], extra: Optional[Dict[str, Any]] = None) -> None:
    """Writes module Batch with Machines == << D1, ... >> (and extra definitions)."""
    with open(path, "w") as f:
        f.write("---- MODULE Batch ----\nEXTENDS TLC\n")
        f.write("Machines == <<\n")
        f.write(",\n".join(to_tla(m) for m in machines))
        f.write("\n>>\n")
        for k, v in (extra or {}).items():
            f.write(f"{k} == {to_tla(v)}\n")
        f.write("====\n")


class TLCResult:
    def __init__(self) -> None:
        self.returncode = 0
        self.lines: List[str] = []
        self.json_lines: List[Any] = []
        self.states_generated = 0
        self.distinct_states = 0
        self.errors: List[str] = []
        self.wall = 0.0
        self.coverage: Dict[str, int] = {}
        self.finished = False
        self.invariant_violations: List[str] = []


_STATS = re.compile(r"(\d+) states generated, (\d+) distinct states found")


def run_tlc(
    module: str,
    cfg_text: str,
    workdir: str,
    *,
    workers: int = 4,
    timeout: int = 1800,
    extra_args: Iterable[str] = (),
    env_extra: Optional[Dict[str, str]] = None,
    coverage: bool = False,
    cont: bool = True,
    heap: str = "4g",
    out_path: Optional[str] = None,
    json_sink=None,
) -> TLCResult:
    """Runs TLC on `module` (found through TLA-Library or workdir) inside workdir.

    JSON lines printed with PrintT(ToJson(..)) are parsed into json_lines (or fed to
    json_sink one by one when given, to bound memory).
    """
    os.makedirs(workdir, exist_ok=True)
    # the root module must live in workdir: a 3-line wrapper extending the real one
    root = f"Run{module}"
    with open(os.path.join(workdir, root + ".tla"), "w") as f:
        f.write(f"---- MODULE {root} ----\nEXTENDS {module}\n====\n")
    with open(os.path.join(workdir, root + ".cfg"), "w") as f:
        f.write(cfg_text)
    meta = os.path.join(workdir, "meta")
    cmd = [
        "java", f"-Xmx{heap}", "-Xss64m", "-XX:+UseParallelGC", f"-DTLA-Library={SPEC_DIR}",
        "-cp", f"{JAR}:{DEPS}", "tlc2.TLC",
        "-workers", str(workers), "-metadir", meta, "-noGenerateSpecTE",
        "-config", root + ".cfg",
    ]
    if cont:
        cmd.append("-continue")
    if coverage:
        cmd += ["-coverage", "1"]
    cmd += list(extra_args)
    cmd.append(root + ".tla")
    env = dict(os.environ)
    env.update(env_extra or {})
    res = TLCResult()
    t0 = time.time()
    outf = open(out_path or os.path.join(workdir, "tlc.out"), "w+")
    try:
        p = subprocess.run(cmd, cwd=workdir, stdout=outf, stderr=subprocess.STDOUT, timeout=timeout, env=env)
        res.returncode = p.returncode
    except subprocess.TimeoutExpired:
        res.returncode = -9
        res.errors.append("timeout")
    res.wall = time.time() - t0
    outf.seek(0)
    for raw in outf:
        line = raw.rstrip("\n")
        if line.startswith('"{') or line.startswith('"['):
            try:
                obj = json.loads(json.loads(line))
            except Exception:
                res.errors.append("unparsable json line: " + line[:200])
                continue
            if json_sink is not None:
                json_sink(obj)
            else:
                res.json_lines.append(obj)
            continue
        res.lines.append(line)
        m = _STATS.search(line)
        if m:
            res.states_generated = int(m.group(1))
            res.distinct_states = int(m.group(2))
        if "Model checking completed" in line or "Finished computing initial states" in line and False:
            res.finished = True
        if line.startswith("Error:"):
            res.errors.append(line)
        if "Invariant" in line and "is violated" in line:
            res.invariant_violations.append(line)
    outf.close()
    res.finished = any("Model checking completed" in l or "Finished in" in l for l in res.lines)
    return res


def scratch_dir(prefix: str = "verif-") -> str:
    base = os.environ.get("VERIF_SCRATCH") or tempfile.gettempdir()
    return tempfile.mkdtemp(prefix=prefix, dir=base)


def rm(path: str) -> None:
    shutil.rmtree(path, ignore_errors=True)
