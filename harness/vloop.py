"""Virtual-time asyncio loop: time() is a variable, timers fire in (when, creation) order when the
driver advances the clock, and the driver decides when the loop runs (run_idle)."""
from __future__ import annotations

import asyncio
from typing import List, Optional, Tuple


class VLoop(asyncio.SelectorEventLoop):
    def __init__(self) -> None:
        super().__init__()
        self._vnow = 0.0
        self._vtimers: List[Tuple[float, int, asyncio.TimerHandle]] = []
        self._vseq = 0

    def time(self) -> float:  # noqa: D401
        return self._vnow

    def call_at(self, when, callback, *args, context=None):
        h = asyncio.TimerHandle(when, callback, args, self, context)
        self._vseq += 1
        self._vtimers.append((when, self._vseq, h))
        h._scheduled = True
        return h

    def _timer_handle_cancelled(self, handle) -> None:
        pass

    def next_deadline(self) -> Optional[float]:
        live = [w for (w, s, h) in self._vtimers if not h._cancelled]
        return min(live) if live else None

    def run_idle(self, budget: int = 100000) -> None:
        """Runs ready handles until none is left (tasks blocked on time or on a queue)."""
        n = 0
        prev = asyncio.events._get_running_loop()
        asyncio.events._set_running_loop(self)
        try:
            while self._ready:
                self._run_once()
                n += 1
                if n > budget:
                    raise RuntimeError("virtual loop did not become idle")
        finally:
            asyncio.events._set_running_loop(prev)

    def advance_to(self, t: float) -> None:
        self._vnow = t
        eps = 1e-9
        due = sorted([(w, s, h) for (w, s, h) in self._vtimers if w <= t + eps and not h._cancelled], key=lambda x: (x[0], x[1]))
        self._vtimers = [x for x in self._vtimers if x[0] > t + eps and not x[2]._cancelled]
        for _w, _s, h in due:
            self._ready.append(h)
        self.run_idle()

    def run_coro(self, coro):
        r = self.run_until_complete(coro)
        self.run_idle()
        return r
