"""Virtual time for the SYNC engine's background threads.

SyncInterpreter arms an `after` timer by starting a daemon thread that blocks in
`threading.Event().wait(timeout)` and then calls `self.send(AfterEvent)`.  The harness leaves
`_after_timer` untouched and replaces the module attribute `sync_interpreter.threading` by a shim whose
`Event` and `Thread` are driven by a controller:

  * every thread the engine starts is a real thread, but at most one thread (the driver or one engine
    thread) runs at any time: `Thread.start()` returns only when the new thread has parked in `wait()`
    (or finished), `wait(timeout)` parks the calling thread, registering a deadline in VIRTUAL
    milliseconds and a creation order;
  * `advance_to(t)` wakes the parked waiters whose deadline is <= t, one at a time, in (deadline,
    creation order), each running until it finishes or parks again - the engine's own code decides what
    an expiry does (status / owner checks, `send`);
  * `Event.set()` on a parked waiter marks it cancelled; cancelled waiters are woken by `settle()` at the
    end of the driver step (their remaining work is bookkeeping).
"""
from __future__ import annotations

import threading as _real
from typing import Any, Dict, List, Optional


class Controller:
    def __init__(self) -> None:
        self.now = 0.0                      # virtual milliseconds
        self.order = 0
        self.waiters: List[dict] = []       # parked: {ev, due, order, sem, cancelled, info}
        self.pending_info: Optional[tuple] = None
        self.tls = _real.local()
        self.fired: List[tuple] = []

    # ---- called from engine threads -------------------------------------------------
    # Control is handed over explicitly: whoever starts or wakes a thread waits on a private semaphore
    # (`handback`) that the thread releases when it parks or finishes.  Handing over can nest (a woken timer
    # thread runs a macrostep that arms - starts - another timer thread).
    def park(self, ev: "VEvent", timeout: Optional[float]) -> bool:
        if ev._flag:
            return True
        self.order += 1
        w = {"ev": ev, "due": self.now + (timeout or 0) * 1000.0, "order": self.order, "sem": _real.Semaphore(0),
             "cancelled": False, "info": getattr(self.tls, "info", None), "handback": None}
        self.waiters.append(w)
        self.tls.handback.release()         # hand control back to whoever started / woke this thread
        w["sem"].acquire()                  # ... until somebody wakes it again
        self.tls.handback = w["handback"]
        return w["cancelled"] or ev._flag

    def finished(self) -> None:
        self.tls.handback.release()

    # ---- called from the running thread (driver or an engine thread inside a macrostep) ----------
    def run_new(self, real_thread, set_handback) -> None:
        """Thread.start(): run the new thread until it parks or ends."""
        hb = _real.Semaphore(0)
        set_handback(hb)
        real_thread.start()
        hb.acquire()

    def cancel(self, ev: "VEvent") -> None:
        for w in self.waiters:
            if w["ev"] is ev:
                w["cancelled"] = True

    # ---- driver -------------------------------------------------------------------------------
    def _wake(self, w: dict) -> None:
        self.waiters.remove(w)
        hb = _real.Semaphore(0)
        w["handback"] = hb
        w["sem"].release()
        hb.acquire()

    def settle(self) -> None:
        for w in [x for x in self.waiters if x["cancelled"]]:
            self._wake(w)

    def live(self) -> List[dict]:
        return [w for w in self.waiters if not w["cancelled"]]

    def next_deadline(self) -> Optional[float]:
        ds = [w["due"] for w in self.live()]
        return min(ds) if ds else None

    def advance_to(self, t: float) -> None:
        while True:
            self.settle()
            due = sorted((w for w in self.live() if w["due"] <= t), key=lambda w: (w["due"], w["order"]))
            if not due:
                break
            w = due[0]
            self.now = max(self.now, w["due"])
            self.fired.append(w["info"] or ("?", "?"))
            self._wake(w)
        self.settle()
        self.now = max(self.now, t)

    def drain(self) -> None:
        """End of a run: cancel and wake everything so that no thread is left behind."""
        for w in list(self.waiters):
            w["cancelled"] = True
        self.settle()


class VEvent:
    def __init__(self, ctl: Controller) -> None:
        self._ctl = ctl
        self._flag = False

    def set(self) -> None:
        self._flag = True
        self._ctl.cancel(self)

    def is_set(self) -> bool:
        return self._flag

    def clear(self) -> None:
        self._flag = False

    def wait(self, timeout: Optional[float] = None) -> bool:
        return self._ctl.park(self, timeout)


class VThread:
    def __init__(self, ctl: Controller, target=None, daemon=None, name=None, args=(), kwargs=None) -> None:
        self._ctl = ctl
        self.name = name or "vthread"
        self.daemon = daemon
        info = ctl.pending_info
        ctl.pending_info = None

        box = {}

        def run():
            ctl.tls.info = info
            ctl.tls.handback = box["hb"]
            try:
                target(*args, **(kwargs or {}))
            finally:
                ctl.finished()

        self._box = box
        self._t = _real.Thread(target=run, daemon=True, name=self.name)

    def start(self) -> None:
        self._ctl.run_new(self._t, lambda hb: self._box.__setitem__("hb", hb))

    def is_alive(self) -> bool:
        return self._t.is_alive()

    def join(self, timeout=None) -> None:
        # joining a parked thread from the running thread would deadlock the baton protocol: it is parked, not running
        return None


class Shim:
    """Stands in for the `threading` module inside sync_interpreter."""

    def __init__(self, ctl: Controller) -> None:
        self._ctl = ctl

    def Event(self):  # noqa: N802
        return VEvent(self._ctl)

    def Thread(self, *a, **k):  # noqa: N802
        return VThread(self._ctl, *a, **k)

    def __getattr__(self, name: str) -> Any:
        return getattr(_real, name)


class patched:
    """with patched(ctl): ...   - sync_interpreter.threading is the shim inside the block"""

    def __init__(self, ctl: Controller) -> None:
        self.ctl = ctl

    def __enter__(self):
        import xstate_statemachine.sync_interpreter as si
        self._mod = si
        self._old = si.threading
        si.threading = Shim(self.ctl)
        return self.ctl

    def __exit__(self, *exc):
        self._mod.threading = self._old
        return False
