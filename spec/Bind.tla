-------------------------------- MODULE Bind --------------------------------
(***************************************************************************)
(* C19 (c), (d): which implementation a referenced name is bound to.       *)
(*                                                                         *)
(* A config (FBatch!Configs[1]) references names (Frontend!References).    *)
(* Built-in action types and spawn_ directives need no user action (a      *)
(* spawn_ directive needs the SERVICE it names); composite and stateIn     *)
(* guards need nothing.  A logic source offers python callables Funcs; a   *)
(* callable f answers to its own name and to its camelCase spelling        *)
(* Camel[f] (string work done by the harness's own converter).  Discovery  *)
(* (logic_modules / logic_providers) must bind every needed name or fail   *)
(* at creation; a user implementation named like a built-in wins.          *)
(*                                                                         *)
(* TLC enumerates the offered subsets; one JSON line per subset with the   *)
(* demanded outcome; the harness builds a module / provider / MachineLogic *)
(* subclass offering exactly that subset and calls create_machine.         *)
(***************************************************************************)
EXTENDS Frontend, FBatch, BindConsts, Json

\* module BindConsts (written by the harness; a cfg file cannot hold function values) defines
\*   Funcs     python callable names that can be offered
\*   Private   the ones with a leading underscore (never offered to discovery)
\*   Camel     [Funcs -> STRING] camelCase spelling of each
\*   Builtins  built-in action type names
\*   SpawnKey  [action type -> service key] for spawn_ directives
\*   Choices   the subsets of Funcs to explore ({} : all of them)

J == Configs[1]
Refs == References(Norm(J))
SK(a) == IF a \in DOMAIN SpawnKey THEN SpawnKey[a] ELSE ""
NeedActions == {a \in Refs.acts : a \notin Builtins /\ SK(a) = ""}
NeedGuards == Refs.guards
NeedServices == Refs.svcs \cup {SK(a) : a \in {b \in Refs.acts : SK(b) # ""}}
Need == NeedActions \cup NeedGuards \cup NeedServices

Answers(f) == IF f \in Private THEN {} ELSE {f, Camel[f]}
Avail(ch) == UNION {Answers(f) : f \in ch}
Candidates(ch, n) == {f \in ch : n \in Answers(f)}

VARIABLE ch
Init == ch \in (IF Choices = {} THEN SUBSET Funcs ELSE Choices)
Next == UNCHANGED ch
Spec == Init /\ [][Next]_ch

Outcome(c) == IF Need \subseteq Avail(c) THEN "bound" ELSE "missing"
Line(c) == [offered |-> c, outcome |-> Outcome(c), missing |-> Need \ Avail(c),
            actions |-> NeedActions, guards |-> NeedGuards, services |-> NeedServices,
            binding |-> {[name |-> n, cands |-> Candidates(c, n)] : n \in Need \cap Avail(c)}]
Emitted == PrintT(ToJson(Line(ch)))
\* (printed through an invariant so that every initial state is reported exactly once)
Inv == Emitted

\* (d) who runs when an action type names a built-in: the user's implementation if there is one
Runs(a, userImpl) == IF a \in userImpl THEN "user" ELSE IF a \in Builtins THEN "builtin" ELSE "missing"
=============================================================================
