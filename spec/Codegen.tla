------------------------------ MODULE Codegen ------------------------------
(***************************************************************************)
(* C17: one invocation of `xsm generate-template`.                         *)
(*                                                                         *)
(* Protocol (cli/__main__.py): render every output text in memory, verify  *)
(* each (syntax, import, rebuild-and-compare), and only then write; a      *)
(* problem anywhere refuses the whole invocation.  With --check nothing is *)
(* written and the exit status says whether disk and regenerated text      *)
(* agree.  The design-level property (AllOrNothing) is checked by TLC on   *)
(* the protocol below; the implementation is bound to it by validating the *)
(* OBSERVATION of every real invocation (module CGObs, written by the      *)
(* harness: exit status, directory before/after, what the written modules  *)
(* are and build) against Allowed - the set of final states of the         *)
(* protocol together with what a written module must be.                   *)
(***************************************************************************)
EXTENDS Naturals, Sequences, FiniteSets, TLC

(***************************************************************************)
(* The protocol                                                            *)
(***************************************************************************)
CONSTANTS Files           \* the output files of one invocation, e.g. {"logic", "runner"}

VARIABLES pc,             \* "render" | "verify" | "write" | "done"
          ok,             \* Files -> BOOLEAN: did the rendered text pass verification (nondeterministic)
          verified,       \* files verified so far
          disk,           \* files written
          exit            \* exit status once done, 99 before
pvars == <<pc, ok, verified, disk, exit>>

PInit == /\ pc = "render" /\ ok \in [Files -> BOOLEAN] /\ verified = {} /\ disk = {} /\ exit = 99
Render == pc = "render" /\ pc' = "verify" /\ UNCHANGED <<ok, verified, disk, exit>>
VerifyOne == /\ pc = "verify"
             /\ \E f \in Files \ verified :
                  IF ok[f] THEN /\ verified' = verified \cup {f}
                                /\ pc' = IF verified' = Files THEN "write" ELSE "verify"
                                /\ UNCHANGED <<ok, disk, exit>>
                  ELSE /\ pc' = "done" /\ exit' = 1 /\ UNCHANGED <<ok, verified, disk>>     \* refuse: nothing written
WriteOne == /\ pc = "write"
            /\ \E f \in Files \ disk :
                 /\ disk' = disk \cup {f}
                 /\ pc' = IF disk' = Files THEN "done" ELSE "write"
                 /\ exit' = IF disk' = Files THEN 0 ELSE exit
                 /\ UNCHANGED <<ok, verified>>
PNext == Render \/ VerifyOne \/ WriteOne \/ (pc = "done" /\ UNCHANGED pvars)
PSpec == PInit /\ [][PNext]_pvars

\* nothing reaches the disk before everything is verified; a refusal leaves the disk untouched
NoWriteBeforeVerified == disk # {} => verified = Files
AllOrNothing == pc = "done" => \/ (exit = 0 /\ disk = Files /\ \A f \in Files : ok[f])
                               \/ (exit # 0 /\ disk = {})

=============================================================================
