---------------------------- MODULE CodegenObs ----------------------------
(***************************************************************************)
(* C17: validation of observed `xsm generate-template` invocations against *)
(* the final states the protocol of spec/Codegen.tla allows (AllOrNothing) *)
(* and against what a written module must be.  Module CGObs (written by    *)
(* the harness) holds the observations.                                    *)
(***************************************************************************)
EXTENDS Naturals, Sequences, FiniteSets, TLC, Json, CGObs

(***************************************************************************)
(* Observations of real invocations                                        *)
(*   [exit, nnew, changed, kind, valid, imported, silent, built, nfEqual,  *)
(*    traceEqual, bound, checkRc, regenSame, hostileCode, payloadRan]      *)
(***************************************************************************)
Clauses(o) ==
  (IF o.exit # 0 /\ (o.nnew # 0 \/ o.changed # 0) THEN {"refused_but_wrote"} ELSE {})
  \cup (IF o.exit = 0 /\ o.nnew = 0 THEN {"exit_0_but_wrote_nothing"} ELSE {})
  \cup (IF o.exit = 0 /\ ~o.valid THEN {"written_file_not_valid_python"} ELSE {})
  \cup (IF o.exit = 0 /\ o.valid /\ ~o.imported THEN {"written_module_does_not_import"} ELSE {})
  \cup (IF o.exit = 0 /\ o.imported /\ ~o.silent THEN {"import_has_side_effects"} ELSE {})
  \cup (IF o.exit = 0 /\ o.imported /\ o.kind = "pythonic" /\ ~o.built THEN {"written_module_builds_no_machine"} ELSE {})
  \cup (IF o.exit = 0 /\ o.built /\ o.kind = "pythonic" /\ ~o.nfEqual THEN {"generated_machine_differs_from_source"} ELSE {})
  \cup (IF o.exit = 0 /\ o.built /\ o.kind = "pythonic" /\ o.nfEqual /\ ~o.traceEqual THEN {"generated_machine_behaves_differently"} ELSE {})
  \cup (IF o.exit = 0 /\ o.imported /\ o.kind = "json" /\ ~o.bound THEN {"generated_logic_does_not_bind_every_name"} ELSE {})
  \cup (IF o.exit = 0 /\ o.checkRc # 0 THEN {"check_reports_drift_on_fresh_output"} ELSE {})
  \cup (IF o.exit = 0 /\ ~o.regenSame THEN {"regeneration_not_byte_identical"} ELSE {})
  \cup (IF o.hostileCode THEN {"input_string_reached_code"} ELSE {})
  \cup (IF o.payloadRan THEN {"input_string_executed"} ELSE {})

\* every observation is validated in one TLC run: one line per observation
VARIABLE oi
OInit == oi \in 1..Len(Obs)
ONext == UNCHANGED oi
OSpec == OInit /\ [][ONext]_oi
Report == PrintT(ToJson([i |-> oi, clauses |-> Clauses(Obs[oi])]))
=============================================================================
