------------------------------ MODULE Frontend ------------------------------
(***************************************************************************)
(* The configuration front end: what machine a raw config DENOTES.         *)
(*                                                                         *)
(* A raw config is a tagged JSON value (TJ):                               *)
(*   [t |-> "o", ks |-> <<key..>>, vs |-> <<TJ..>>]   object, ordered      *)
(*        key = [s |-> text, py |-> "s"|"n", isnum |-> BOOLEAN, n |-> Nat, *)
(*               segs |-> text split on "."]                               *)
(*   [t |-> "l", vs |-> <<TJ..>>]                      list                 *)
(*   [t |-> "s", s |-> text, hash, dot |-> BOOLEAN, segs |-> <<text..>>]   *)
(*        string; the harness tokeniser supplies: leading '#', leading '.',*)
(*        and the remainder split on '.' (TLC has no character access)     *)
(*   [t |-> "n", n |-> Nat]   [t |-> "b", b |-> BOOLEAN]   [t |-> "z"]     *)
(*                                                                         *)
(* Probs(J)  : the reasons J cannot be interpreted, as <<class, what, id>> *)
(*     "must" - wrong shape: the property demands a library error          *)
(*     "lazy" - unresolvable reference: error at creation, start or use    *)
(*     "may"  - a value the library documents (or plausibly chooses) to    *)
(*              coerce or default; nothing demanded except no raw error    *)
(* Norm(J)   : the normal form - one record per state, every spelling      *)
(*             folded, every target resolved to an absolute state id.      *)
(* Apply(J, rs) : J respelt with the rewrites in rs (all sites, uniformly).*)
(* Nodes(J), Corrupt(J, p, v) : single-point corruptions.                  *)
(***************************************************************************)
EXTENDS Naturals, Sequences, FiniteSets, TLC

Null == [t |-> "z"]
IsO(v) == v.t = "o"
IsL(v) == v.t = "l"
IsS(v) == v.t = "s"
IsN(v) == v.t = "n"
IsB(v) == v.t = "b"
IsZ(v) == v.t = "z"

\* Python truthiness of a JSON value
Truthy(v) == CASE v.t = "z" -> FALSE
               [] v.t = "b" -> v.b
               [] v.t = "n" -> v.n # 0
               [] v.t = "s" -> v.s # ""
               [] v.t = "l" -> Len(v.vs) > 0
               [] v.t = "o" -> Len(v.ks) > 0

Has(o, k) == \E i \in 1..Len(o.ks) : o.ks[i].s = k
KeyIx(o, k) == CHOOSE i \in 1..Len(o.ks) : o.ks[i].s = k
G(o, k) == IF Has(o, k) THEN o.vs[KeyIx(o, k)] ELSE Null          \* dict.get(k)
PlainKey(k) == [s |-> k, py |-> "s", isnum |-> FALSE, n |-> 0, segs |-> <<k>>]
Obj1(k, v) == [t |-> "o", ks |-> <<PlainKey(k)>>, vs |-> <<v>>]
EmptyObj == [t |-> "o", ks |-> <<>>, vs |-> <<>>]
Without(o, k) == LET keep == SelectSeq([i \in 1..Len(o.ks) |-> i], LAMBDA i : o.ks[i].s # k) IN
                 [t |-> "o", ks |-> [j \in 1..Len(keep) |-> o.ks[keep[j]]], vs |-> [j \in 1..Len(keep) |-> o.vs[keep[j]]]]
With(o, k, v) == IF Has(o, k) THEN [o EXCEPT !.vs[KeyIx(o, k)] = v]
                 ELSE [t |-> "o", ks |-> Append(o.ks, PlainKey(k)), vs |-> Append(o.vs, v)]
Renamed(o, k, k2) == [o EXCEPT !.ks[KeyIx(o, k)] = PlainKey(k2)]
MkList(s) == [t |-> "l", vs |-> s]

RECURSIVE Join(_)
Join(segs) == IF Len(segs) = 0 THEN "" ELSE IF Len(segs) = 1 THEN segs[1] ELSE segs[1] \o "." \o Join(Tail(segs))
MkStr(hash, dot, segs) == [t |-> "s", s |-> (IF hash THEN "#" ELSE IF dot THEN "." ELSE "") \o Join(segs),
                           hash |-> hash, dot |-> dot, segs |-> segs]
RECURSIVE Flat(_)
Flat(ss) == IF Len(ss) = 0 THEN <<>> ELSE Head(ss) \o Flat(Tail(ss))
Range(s) == {s[i] : i \in 1..Len(s)}
IsPrefix(p, s) == Len(p) <= Len(s) /\ \A i \in 1..Len(p) : p[i] = s[i]

(***************************************************************************)
(* The state tree                                                          *)
(***************************************************************************)
\* is the tree of `states` objects well formed below c (so that it can be walked at all)?
RECURSIVE TreeProbs(_, _)
TreeProbs(c, id) ==
  IF ~IsO(c) THEN {<<"must", "state_not_object", id>>}
  ELSE IF ~Has(c, "states") THEN {}
  ELSE LET sts == G(c, "states") IN
       IF ~IsO(sts) THEN {<<"must", "states_not_object", id>>}
       ELSE UNION {TreeProbs(sts.vs[i], id \o "." \o sts.ks[i].s) : i \in 1..Len(sts.ks)}

\* pre-order list of states: [id, par, key, segs, c]
RECURSIVE SLRec(_, _, _, _, _)
SLRec(c, id, par, key, segs) ==
  <<[id |-> id, par |-> par, key |-> key, segs |-> segs, c |-> c]>> \o
  (IF Has(c, "states")
   THEN LET sts == G(c, "states") IN
        Flat([i \in 1..Len(sts.ks) |-> SLRec(sts.vs[i], id \o "." \o sts.ks[i].s, id, sts.ks[i].s, Append(segs, sts.ks[i].s))])
   ELSE <<>>)
StateList(J) == SLRec(J, G(J, "id").s, "", G(J, "id").s, <<G(J, "id").s>>)

Ids(SL) == {SL[i].id : i \in 1..Len(SL)}
ById(SL, id) == SL[CHOOSE i \in 1..Len(SL) : SL[i].id = id]
RootId(SL) == SL[1].id
ChildrenOf(SL, id) == SelectSeq(SL, LAMBDA x : x.par = id)
ChildId(SL, pid, key) == IF \E i \in 1..Len(SL) : SL[i].par = pid /\ SL[i].key = key
                         THEN SL[CHOOSE i \in 1..Len(SL) : SL[i].par = pid /\ SL[i].key = key].id ELSE ""
RECURSIVE Desc(_, _, _)
Desc(SL, start, segs) == IF Len(segs) = 0 THEN start
                         ELSE LET c == ChildId(SL, start, segs[1]) IN IF c = "" THEN "" ELSE Desc(SL, c, Tail(segs))

KindOf(c) == LET ty == G(c, "type") IN
  IF Has(c, "states") THEN (IF IsS(ty) /\ ty.s = "parallel" THEN "parallel" ELSE "compound")
  ELSE IF IsS(ty) /\ ty.s = "final" THEN "final"
  ELSE IF IsS(ty) /\ ty.s = "history" THEN "history"
  ELSE "atomic"

\* custom ids (declared on non-root states)
CidOf(x) == IF x.par # "" /\ IsS(G(x.c, "id")) THEN G(x.c, "id").s ELSE ""
HasCid(SL, name) == \E i \in 1..Len(SL) : CidOf(SL[i]) = name /\ name # ""
CidState(SL, name) == SL[CHOOSE i \in 1..Len(SL) : CidOf(SL[i]) = name].id

(***************************************************************************)
(* Target resolution (documented order: '#machine.path' / '#customId[.path]',*)
(* '.', '.relative' from the parent of the reference, plain id bubbling up *)
(* from the reference; the interpreter tries the source, its parent, the   *)
(* root, and the root-prefixed spelling in that order)                     *)
(***************************************************************************)
RECURSIVE Bubble(_, _, _)
Bubble(SL, segs, cur) ==
  IF cur = "" THEN ""
  ELSE LET d == Desc(SL, cur, segs) IN
       IF d # "" THEN d
       ELSE IF Len(segs) = 1 /\ segs[1] = ById(SL, cur).key THEN cur
       ELSE Bubble(SL, segs, ById(SL, cur).par)

R1(SL, tg, ref) ==
  IF tg.s = "" THEN ""
  ELSE IF tg.hash THEN
       IF \E i \in 1..Len(tg.segs) : tg.segs[i] = "" THEN ""
       ELSE LET viaRoot == IF tg.segs[1] = ById(SL, RootId(SL)).key THEN Desc(SL, RootId(SL), Tail(tg.segs)) ELSE "" IN
            IF viaRoot # "" THEN viaRoot
            ELSE IF HasCid(SL, tg.segs[1]) THEN Desc(SL, CidState(SL, tg.segs[1]), Tail(tg.segs)) ELSE ""
  ELSE IF tg.s = "." THEN (IF ById(SL, ref).par = "" THEN ref ELSE ById(SL, ref).par)
  ELSE IF tg.dot THEN
       IF \E i \in 1..Len(tg.segs) : tg.segs[i] = "" THEN ""
       ELSE Desc(SL, IF ById(SL, ref).par = "" THEN ref ELSE ById(SL, ref).par, tg.segs)
  ELSE IF \E i \in 1..Len(tg.segs) : tg.segs[i] = "" THEN ""
       ELSE Bubble(SL, tg.segs, ref)

ResolveT(SL, tg, src) ==
  LET a1 == R1(SL, tg, src)
      p == ById(SL, src).par
      a2 == IF a1 = "" /\ p # "" THEN R1(SL, tg, p) ELSE a1
      a3 == IF a2 = "" THEN R1(SL, tg, RootId(SL)) ELSE a2
      a4 == IF a3 = "" /\ ~tg.hash /\ ~tg.dot /\ tg.s # ""
            THEN R1(SL, MkStr(FALSE, FALSE, <<ById(SL, RootId(SL)).key>> \o tg.segs), RootId(SL)) ELSE a3
  IN a4

(***************************************************************************)
(* Shapes of the parts                                                     *)
(***************************************************************************)
AsList(v) == IF IsZ(v) THEN <<>> ELSE IF IsL(v) THEN v.vs ELSE <<v>>      \* _ensure_list

\* actions: absent / falsy -> none; one action or a list of actions; an action is a name or {type, params}
ActItems(v) == IF ~Truthy(v) THEN <<>> ELSE AsList(v)
ActProbs(v, id, what) ==
  LET items == ActItems(v) IN
  UNION {LET a == items[i] IN
         IF IsS(a) THEN {}
         ELSE IF IsO(a) THEN (IF ~Has(a, "type") THEN {<<"may", what \o "_action_without_type", id>>}
                              ELSE IF ~IsS(G(a, "type")) THEN {<<"must", what \o "_action_type_not_string", id>>} ELSE {})
         ELSE {<<"must", what \o "_action_not_string_or_object", id>>}
         : i \in 1..Len(items)}
  \cup (IF ~IsZ(v) /\ ~Truthy(v) /\ ~IsL(v) THEN {<<"may", what \o "_falsy_actions", id>>} ELSE {})
ActNF(v) == LET items == ActItems(v) IN
  [i \in 1..Len(items) |-> IF IsS(items[i]) THEN [type |-> items[i].s, params |-> Null]
                           ELSE [type |-> G(items[i], "type").s, params |-> G(items[i], "params")]]

\* guards
Composite == {"and", "or", "not"}
GuardKidsCfg(g) ==                     \* g an object with string type
  LET ch == G(g, "children")
      pa == G(g, "params")
      viaParams == IF IsO(pa) THEN (IF Truthy(G(pa, "guards")) THEN G(pa, "guards") ELSE G(pa, "children")) ELSE Null
      nested == IF IsO(pa) /\ G(g, "type").s \in Composite THEN G(pa, "guard") ELSE Null
  IN IF Truthy(ch) THEN ch ELSE IF Truthy(viaParams) THEN viaParams ELSE IF ~IsZ(nested) THEN MkList(<<nested>>) ELSE MkList(<<>>)
RECURSIVE GuardProbs(_, _)
GuardProbs(g, id) ==
  IF IsS(g) THEN {}
  ELSE IF ~IsO(g) THEN {<<"must", "guard_not_string_or_object", id>>}
  ELSE IF ~IsS(G(g, "type")) \/ G(g, "type").s = "" THEN {<<"must", "guard_type_not_nonempty_string", id>>}
  ELSE LET kids == GuardKidsCfg(g) IN
       IF ~IsL(kids) THEN {<<"must", "guard_children_not_list", id>>}
       ELSE (UNION {GuardProbs(kids.vs[i], id) : i \in 1..Len(kids.vs)})
            \cup (IF G(g, "type").s \in Composite /\ Len(kids.vs) = 0 THEN {<<"must", "composite_guard_without_children", id>>} ELSE {})
            \cup (IF G(g, "type").s = "not" /\ Len(kids.vs) > 1 THEN {<<"must", "not_guard_with_several_children", id>>} ELSE {})
            \cup (IF G(g, "type").s \notin Composite /\ Len(kids.vs) > 0 THEN {<<"may", "children_on_plain_guard", id>>} ELSE {})
RECURSIVE GuardNF(_)
GuardNF(g) ==
  IF IsS(g) THEN [type |-> g.s, params |-> Null, kids |-> <<>>, comp |-> FALSE]
  ELSE LET kids == GuardKidsCfg(g) IN
       \* (the params of a composite guard only spell its operands - children / params.guards / params.guard)
       [type |-> G(g, "type").s, params |-> IF G(g, "type").s \in Composite THEN Null ELSE G(g, "params"),
        kids |-> [i \in 1..Len(kids.vs) |-> GuardNF(kids.vs[i])], comp |-> G(g, "type").s \in Composite]
NoGuard == [type |-> "", params |-> Null, kids |-> <<>>, comp |-> FALSE]

\* transitions: null = forbidden, "target", {..}, or a list of "target" / {..}
TItems(v) == IF IsZ(v) THEN <<Obj1("__forbidden__", [t |-> "b", b |-> TRUE])>>
             ELSE IF IsS(v) THEN <<Obj1("target", v)>>
             ELSE IF IsO(v) THEN <<v>>
             ELSE IF IsL(v) THEN [i \in 1..Len(v.vs) |-> IF IsS(v.vs[i]) THEN Obj1("target", v.vs[i]) ELSE v.vs[i]]
             ELSE <<>>
GuardCfg(c) == IF Has(c, "guard") THEN G(c, "guard") ELSE G(c, "cond")
TProbs(v, id, what) ==
  IF ~(IsZ(v) \/ IsS(v) \/ IsO(v) \/ IsL(v)) THEN {<<"must", what \o "_transition_wrong_type", id>>}
  ELSE IF IsL(v) /\ \E i \in 1..Len(v.vs) : ~(IsS(v.vs[i]) \/ IsO(v.vs[i])) THEN {<<"must", what \o "_transition_item_wrong_type", id>>}
  ELSE LET items == TItems(v) IN
       UNION {LET c == items[i] IN
              (IF ~(IsZ(G(c, "target")) \/ IsS(G(c, "target"))) THEN {<<"must", what \o "_target_not_string", id>>} ELSE {})
              \cup ActProbs(G(c, "actions"), id, what)
              \cup (IF IsZ(GuardCfg(c)) THEN {} ELSE GuardProbs(GuardCfg(c), id))
              \cup (IF Has(c, "guard") /\ Has(c, "cond") THEN {<<"may", what \o "_guard_and_cond", id>>} ELSE {})
              \cup (IF ~(IsZ(G(c, "reenter")) \/ IsB(G(c, "reenter"))) THEN {<<"may", what \o "_reenter_not_boolean", id>>} ELSE {})
              : i \in 1..Len(items)}
TLazy(SL, v, id, what) ==
  LET items == TItems(v) IN
  UNION {LET tg == G(items[i], "target") IN
         IF IsS(tg) /\ tg.s # "" /\ ResolveT(SL, tg, id) = "" THEN {<<"lazy", what \o "_target_unresolvable", id>>} ELSE {}
         : i \in 1..Len(items)}
TNF(SL, v, src) ==
  LET items == TItems(v) IN
  [i \in 1..Len(items) |->
     LET c == items[i]
         tg == G(c, "target") IN
     [target |-> IF IsS(tg) /\ tg.s # "" THEN ResolveT(SL, tg, src) ELSE "",
      guard |-> IF IsZ(GuardCfg(c)) THEN NoGuard ELSE GuardNF(GuardCfg(c)),
      actions |-> ActNF(G(c, "actions")),
      reenter |-> Truthy(G(c, "reenter")),
      forbidden |-> Truthy(G(c, "__forbidden__"))]]

\* an object of transitions (on / after)
MapProbs(SL, m, id, what) ==
  IF ~IsO(m) THEN {<<"must", what \o "_not_object", id>>}
  ELSE UNION {TProbs(m.vs[i], id, what) : i \in 1..Len(m.ks)}
MapLazy(SL, m, id, what) == UNION {TLazy(SL, m.vs[i], id, what) : i \in 1..Len(m.ks)}

InvItems(c) == AsList(G(c, "invoke"))
InvProbs(SL, c, id) ==
  LET items == InvItems(c) IN
  UNION {LET iv == items[i] IN
         IF ~IsO(iv) THEN {<<"must", "invoke_not_object", id>>}
         \* (a falsy src - null, false, 0, "", [], {} - is read as "no src": documented warning, class may below)
         ELSE (IF Has(iv, "src") /\ ~IsS(G(iv, "src")) /\ Truthy(G(iv, "src")) THEN {<<"must", "invoke_src_not_string", id>>} ELSE {})
              \cup (IF ~Truthy(G(iv, "src")) THEN {<<"may", "invoke_without_src", id>>} ELSE {})
              \cup (IF Has(iv, "id") /\ ~IsS(G(iv, "id")) THEN {<<"may", "invoke_id_not_string", id>>} ELSE {})
              \cup (IF Has(iv, "onDone") /\ IsZ(G(iv, "onDone")) THEN {<<"may", "invoke_onDone_null", id>>}
                    ELSE IF Has(iv, "onDone") THEN TProbs(G(iv, "onDone"), id, "invoke_onDone") ELSE {})
              \cup (IF Has(iv, "onError") /\ IsZ(G(iv, "onError")) THEN {<<"may", "invoke_onError_null", id>>}
                    ELSE IF Has(iv, "onError") THEN TProbs(G(iv, "onError"), id, "invoke_onError") ELSE {})
         : i \in 1..Len(items)}
  \cup (IF Has(c, "invoke") /\ IsL(G(c, "invoke")) /\ FALSE THEN {} ELSE {})
InvLazy(SL, c, id) ==
  LET items == InvItems(c) IN
  UNION {(IF Has(items[i], "onDone") THEN TLazy(SL, G(items[i], "onDone"), id, "invoke_onDone") ELSE {})
         \cup (IF Has(items[i], "onError") THEN TLazy(SL, G(items[i], "onError"), id, "invoke_onError") ELSE {})
         : i \in 1..Len(items)}
InvNF(SL, c, id) ==
  LET items == InvItems(c) IN
  [i \in 1..Len(items) |->
     LET iv == items[i] IN
     [id |-> IF Has(iv, "id") THEN G(iv, "id").s ELSE id,
      src |-> G(iv, "src"),
      input |-> G(iv, "input"),
      onDone |-> IF Has(iv, "onDone") THEN TNF(SL, G(iv, "onDone"), id) ELSE <<>>,
      onError |-> IF Has(iv, "onError") THEN TNF(SL, G(iv, "onError"), id) ELSE <<>>]]

(***************************************************************************)
(* One state                                                               *)
(***************************************************************************)
NonHistKids(SL, id) == SelectSeq(ChildrenOf(SL, id), LAMBDA x : ~(IsS(G(x.c, "type")) /\ G(x.c, "type").s = "history"))

InitialOf(SL, x) ==          \* child key, "" (none needed), "?" (cannot be determined)
  LET ini == G(x.c, "initial")
      kids == NonHistKids(SL, x.id) IN
  IF KindOf(x.c) # "compound" THEN ""
  ELSE IF IsS(ini) /\ ini.s # "" THEN (IF ChildId(SL, x.id, ini.s) # "" THEN ini.s ELSE "?")
  ELSE IF Len(kids) = 1 THEN kids[1].key
  ELSE IF Len(kids) = 0 THEN "" ELSE "?"

TagsProbs(v, id) ==
  IF IsZ(v) \/ IsS(v) THEN {}
  ELSE IF ~IsL(v) THEN {<<"must", "tags_not_string_or_list", id>>}
  ELSE IF \E i \in 1..Len(v.vs) : ~IsS(v.vs[i]) THEN {<<"must", "tag_not_string", id>>} ELSE {}
TagsNF(v) == IF IsZ(v) THEN {} ELSE IF IsS(v) THEN {v.s} ELSE {v.vs[i].s : i \in 1..Len(v.vs)}

KnownTypes == {"atomic", "compound", "parallel", "final", "history"}

LocalProbs(SL, x) ==
  LET c == x.c
      id == x.id
      kind == KindOf(c) IN
  \* own id
  (IF x.par # "" /\ Has(c, "id") /\ ~IsZ(G(c, "id")) /\ (~IsS(G(c, "id")) \/ G(c, "id").s = "")
   THEN {<<"must", "custom_id_not_nonempty_string", id>>} ELSE {})
  \cup (IF CidOf(x) # "" /\ \E i \in 1..Len(SL) : SL[i].id # id /\ CidOf(SL[i]) = CidOf(x)
        THEN {<<"must", "duplicate_custom_id", id>>} ELSE {})
  \* type / history keywords
  \cup (IF Has(c, "type") /\ (~IsS(G(c, "type")) \/ G(c, "type").s \notin KnownTypes) THEN {<<"may", "unknown_type", id>>} ELSE {})
  \cup (IF Has(c, "type") /\ IsS(G(c, "type")) /\ G(c, "type").s \in KnownTypes /\ G(c, "type").s # kind
        THEN {<<"may", "type_contradicts_children", id>>} ELSE {})
  \cup (IF Has(c, "history") /\ ~(IsS(G(c, "history")) /\ G(c, "history").s \in {"shallow", "deep"}) /\ ~(IsB(G(c, "history")))
        THEN {<<"may", "unknown_history_kind", id>>} ELSE {})
  \cup (IF Has(c, "history") /\ IsB(G(c, "history")) THEN {<<"may", "boolean_history", id>>} ELSE {})
  \cup (IF kind = "history" /\ Has(c, "target") /\ ~IsZ(G(c, "target")) /\ ~IsS(G(c, "target")) THEN {<<"may", "history_target_not_string", id>>} ELSE {})
  \* initial
  \cup (IF ~IsZ(G(c, "initial")) /\ ~IsS(G(c, "initial")) THEN {<<"must", "initial_not_string", id>>} ELSE {})
  \cup (IF (IsZ(G(c, "initial")) \/ IsS(G(c, "initial"))) /\ InitialOf(SL, x) = "?" THEN {<<"lazy", "no_resolvable_initial", id>>} ELSE {})
  \* child keys containing the id separator
  \cup (IF Has(c, "states")
        THEN LET sts == G(c, "states") IN
             UNION {IF Len(sts.ks[i].segs) > 1
                    THEN (IF \E j \in 1..Len(sts.ks) : sts.ks[j].s = sts.ks[i].segs[1]
                          THEN {<<"must", "ambiguous_dotted_key", id>>} ELSE {<<"may", "dotted_key", id>>})
                    ELSE {} : i \in 1..Len(sts.ks)}
        ELSE {})
  \* behaviour
  \cup ActProbs(G(c, "entry"), id, "entry") \cup ActProbs(G(c, "exit"), id, "exit")
  \cup (IF Has(c, "on") THEN MapProbs(SL, G(c, "on"), id, "on") ELSE {})
  \cup (IF Has(c, "after") THEN MapProbs(SL, G(c, "after"), id, "after") ELSE {})
  \cup (IF ~IsZ(G(c, "always")) THEN TProbs(G(c, "always"), id, "always") ELSE {})
  \cup (IF Truthy(G(c, "onDone")) THEN TProbs(G(c, "onDone"), id, "onDone")
        ELSE IF ~IsZ(G(c, "onDone")) THEN {<<"may", "falsy_onDone", id>>} ELSE {})
  \cup (IF IsL(G(c, "onDone")) /\ Len(G(c, "onDone").vs) > 1 THEN {<<"may", "several_onDone", id>>} ELSE {})
  \cup InvProbs(SL, c, id)
  \* metadata
  \cup TagsProbs(G(c, "tags"), id)
  \cup (IF Truthy(G(c, "meta")) /\ ~IsO(G(c, "meta")) THEN {<<"must", "meta_not_object", id>>} ELSE {})
  \cup (IF ~Truthy(G(c, "meta")) /\ ~IsZ(G(c, "meta")) /\ ~IsO(G(c, "meta")) THEN {<<"may", "falsy_meta", id>>} ELSE {})

LocalLazy(SL, x) ==
  LET c == x.c
      id == x.id IN
  (IF Has(c, "on") THEN MapLazy(SL, G(c, "on"), id, "on") ELSE {})
  \cup (IF Has(c, "after") THEN MapLazy(SL, G(c, "after"), id, "after") ELSE {})
  \cup (IF ~IsZ(G(c, "always")) THEN TLazy(SL, G(c, "always"), id, "always") ELSE {})
  \cup (IF Truthy(G(c, "onDone")) THEN TLazy(SL, G(c, "onDone"), id, "onDone") ELSE {})
  \cup InvLazy(SL, c, id)

RootProbs(J) ==
  IF ~IsO(J) THEN {<<"must", "config_not_object", "">>}
  ELSE (IF ~IsS(G(J, "id")) \/ G(J, "id").s = "" THEN {<<"must", "machine_id_not_nonempty_string", "">>} ELSE {})
       \cup (IF ~Has(J, "states") THEN {<<"must", "no_states", "">>} ELSE {})
       \cup (IF Has(J, "context") /\ IsS(G(J, "context")) THEN {<<"may", "string_context", "">>}
             ELSE IF Has(J, "context") /\ ~IsO(G(J, "context")) THEN {<<"must", "context_not_object", "">>} ELSE {})
       \cup (IF Has(J, "maxIterations") /\ ~IsN(G(J, "maxIterations")) THEN {<<"may", "maxIterations_not_number", "">>} ELSE {})

Probs(J) ==
  LET r == RootProbs(J) IN
  IF \E p \in r : p[1] = "must" THEN r
  ELSE LET tp == TreeProbs(J, G(J, "id").s) IN
       IF tp # {} THEN r \cup tp
       ELSE LET SL == StateList(J)
                lp == UNION {LocalProbs(SL, SL[i]) : i \in 1..Len(SL)} IN
            IF \E p \in lp : p[1] = "must" THEN r \cup lp
            ELSE r \cup lp \cup UNION {LocalLazy(SL, SL[i]) : i \in 1..Len(SL)}

Class(J) == LET p == Probs(J) IN
  IF \E q \in p : q[1] = "must" THEN "reject"
  ELSE IF \E q \in p : q[1] = "lazy" THEN "lazy"
  ELSE IF p # {} THEN "either" ELSE "accept"

(***************************************************************************)
(* The normal form (defined when Class(J) = "accept")                      *)
(***************************************************************************)
OnNF(SL, c, id) ==         \* set of [ev, ts]; `always` is appended to the "" bucket
  LET on == IF Has(c, "on") THEN G(c, "on") ELSE EmptyObj
      base == {[ev |-> on.ks[i].s, ts |-> TNF(SL, on.vs[i], id)] : i \in {j \in 1..Len(on.ks) : on.ks[j].s # ""}}
      e1 == IF Has(on, "") THEN TNF(SL, G(on, ""), id) ELSE <<>>
      e2 == IF ~IsZ(G(c, "always")) THEN TNF(SL, G(c, "always"), id) ELSE <<>> IN
  base \cup (IF Len(e1 \o e2) > 0 \/ Has(on, "") THEN {[ev |-> "", ts |-> e1 \o e2]} ELSE {})

AfterNF(SL, c, id) ==
  LET af == IF Has(c, "after") THEN G(c, "after") ELSE EmptyObj IN
  {[num |-> af.ks[i].isnum, n |-> IF af.ks[i].isnum THEN af.ks[i].n ELSE 0, name |-> IF af.ks[i].isnum THEN "" ELSE af.ks[i].s,
    ts |-> TNF(SL, af.vs[i], id)] : i \in 1..Len(af.ks)}

StateNF(SL, x) ==
  LET c == x.c
      kind == KindOf(c) IN
  [id |-> x.id, kind |-> kind, initial |-> InitialOf(SL, x),
   hist |-> IF kind # "history" THEN "" ELSE IF IsS(G(c, "history")) /\ G(c, "history").s = "deep" THEN "deep" ELSE "shallow",
   htarget |-> IF kind = "history" /\ IsS(G(c, "target")) /\ G(c, "target").s # "" THEN R1(SL, G(c, "target"), x.id) ELSE "",
   cid |-> CidOf(x),
   entry |-> ActNF(G(c, "entry")), exit |-> ActNF(G(c, "exit")),
   on |-> OnNF(SL, c, x.id),
   onDone |-> IF Truthy(G(c, "onDone")) THEN SubSeq(TNF(SL, G(c, "onDone"), x.id), 1, 1) ELSE <<>>,
   after |-> AfterNF(SL, c, x.id),
   invoke |-> InvNF(SL, c, x.id),
   tags |-> TagsNF(G(c, "tags")),
   meta |-> IF Truthy(G(c, "meta")) THEN G(c, "meta") ELSE EmptyObj,
   output |-> G(c, "output")]

Norm(J) == LET SL == StateList(J) IN
  [id |-> G(J, "id").s,
   context |-> IF Has(J, "context") /\ IsO(G(J, "context")) THEN G(J, "context") ELSE EmptyObj,
   states |-> [i \in 1..Len(SL) |-> StateNF(SL, SL[i])]]

\* names a config requires from the logic (user actions, guards, services): used by C19 / C17
RECURSIVE GuardNames(_)
GuardNames(g) == IF g.type = "" THEN {} ELSE IF g.comp THEN UNION {GuardNames(g.kids[i]) : i \in 1..Len(g.kids)}
                 ELSE IF g.type = "stateIn" THEN {} ELSE {g.type}
TSeqNames(ts) == [acts |-> UNION {{ts[i].actions[j].type : j \in 1..Len(ts[i].actions)} : i \in 1..Len(ts)},
                  guards |-> UNION {GuardNames(ts[i].guard) : i \in 1..Len(ts)}]

(***************************************************************************)
(* Names a config references (what a logic must bind): action types, leaf  *)
(* guard names (composite and stateIn guards are evaluated by the engine), *)
(* invoked sources.  Actions and guards inside xstate.choose branches are  *)
(* references too.  Computed on the normal form plus the raw choose params.*)
(***************************************************************************)
RECURSIVE RawGuardNames(_)
RawGuardNames(g) ==                      \* g: raw TJ guard
  IF IsS(g) THEN {g.s}
  ELSE IF ~IsO(g) \/ ~IsS(G(g, "type")) THEN {}
  ELSE IF G(g, "type").s \in Composite
       THEN LET kids == GuardKidsCfg(g) IN UNION {RawGuardNames(kids.vs[i]) : i \in 1..Len(kids.vs)}
  ELSE IF G(g, "type").s = "stateIn" THEN {} ELSE {G(g, "type").s}
ChooseTypes == {"xstate.choose", "choose"}
RECURSIVE ActRefs(_)
ActRefs(acts) ==                         \* acts: sequence of ActNF; result [acts, guards]
  LET one(a) ==
        IF a.type \in ChooseTypes /\ IsO(a.params) /\ IsL(G(a.params, "conditions"))
        THEN LET brs == G(a.params, "conditions").vs
                 sub == [i \in 1..Len(brs) |->
                           IF IsO(brs[i])
                           THEN LET r == ActRefs(ActNF(G(brs[i], "actions"))) IN
                                [acts |-> r.acts, guards |-> r.guards \cup (IF IsZ(GuardCfg(brs[i])) THEN {} ELSE RawGuardNames(GuardCfg(brs[i])))]
                           ELSE [acts |-> {}, guards |-> {}]] IN
             [acts |-> {a.type} \cup UNION {sub[i].acts : i \in 1..Len(brs)}, guards |-> UNION {sub[i].guards : i \in 1..Len(brs)}]
        ELSE [acts |-> {a.type}, guards |-> {}]
  IN [acts |-> UNION {one(acts[i]).acts : i \in 1..Len(acts)}, guards |-> UNION {one(acts[i]).guards : i \in 1..Len(acts)}]
TRefs(ts) ==
  LET rs == [i \in 1..Len(ts) |-> ActRefs(ts[i].actions)] IN
  [acts |-> UNION {rs[i].acts : i \in 1..Len(ts)},
   guards |-> UNION {rs[i].guards \cup GuardNames(ts[i].guard) : i \in 1..Len(ts)}]
StateRefs(st) ==
  LET parts == <<ActRefs(st.entry), ActRefs(st.exit), TRefs(st.onDone)>>
      onl == {TRefs(o.ts) : o \in st.on} \cup {TRefs(o.ts) : o \in st.after}
      inv == {TRefs(st.invoke[i].onDone) : i \in 1..Len(st.invoke)} \cup {TRefs(st.invoke[i].onError) : i \in 1..Len(st.invoke)}
      all == {parts[i] : i \in 1..Len(parts)} \cup onl \cup inv IN
  [acts |-> UNION {r.acts : r \in all}, guards |-> UNION {r.guards : r \in all},
   svcs |-> {st.invoke[i].src.s : i \in {j \in 1..Len(st.invoke) : IsS(st.invoke[j].src) /\ st.invoke[j].src.s # ""}}]
References(nf) ==
  LET rs == [i \in 1..Len(nf.states) |-> StateRefs(nf.states[i])] IN
  [acts |-> UNION {rs[i].acts : i \in 1..Len(rs)}, guards |-> UNION {rs[i].guards : i \in 1..Len(rs)},
   svcs |-> UNION {rs[i].svcs : i \in 1..Len(rs)}]

(***************************************************************************)
(* Spelling rewrites                                                       *)
(***************************************************************************)
AllRewrites == {"tr_obj", "tr_str", "tr_list", "tr_unlist", "always_on", "cond_guard", "act_list", "act_unlist", "act_obj",
                "act_str", "delay_key", "initial_omit", "guard_kids", "tgt_abs", "tgt_cid", "tgt_rel", "tgt_key", "tgt_path"}

RwAct1(a, rs) == IF IsS(a) /\ "act_obj" \in rs THEN Obj1("type", a)
                 ELSE IF IsO(a) /\ "act_str" \in rs /\ Len(a.ks) = 1 /\ Has(a, "type") THEN G(a, "type")
                 ELSE a
RwActs(v, rs) ==         \* v: the value of entry / exit / actions (known well formed)
  IF ~Truthy(v) THEN v
  ELSE IF IsL(v) THEN (IF Len(v.vs) = 1 /\ "act_unlist" \in rs THEN RwAct1(v.vs[1], rs)
                       ELSE MkList([i \in 1..Len(v.vs) |-> RwAct1(v.vs[i], rs)]))
  ELSE IF "act_list" \in rs THEN MkList(<<RwAct1(v, rs)>>) ELSE RwAct1(v, rs)

RwTarget(SL, tg, src, rs) ==
  IF ~IsS(tg) \/ tg.s = "" THEN tg
  ELSE LET id0 == ResolveT(SL, tg, src)
           x0 == ById(SL, id0)
           srcx == ById(SL, src)
           base == IF srcx.par = "" THEN srcx ELSE ById(SL, srcx.par)
           cands == (IF "tgt_abs" \in rs THEN <<MkStr(TRUE, FALSE, x0.segs)>> ELSE <<>>)
                    \o (IF "tgt_cid" \in rs /\ CidOf(x0) # "" THEN <<MkStr(TRUE, FALSE, <<CidOf(x0)>>)>> ELSE <<>>)
                    \o (IF "tgt_rel" \in rs /\ IsPrefix(base.segs, x0.segs) /\ Len(base.segs) < Len(x0.segs)
                        THEN <<MkStr(FALSE, TRUE, SubSeq(x0.segs, Len(base.segs) + 1, Len(x0.segs)))>> ELSE <<>>)
                    \o (IF "tgt_key" \in rs THEN <<MkStr(FALSE, FALSE, <<x0.key>>)>> ELSE <<>>)
                    \o (IF "tgt_path" \in rs /\ Len(x0.segs) > 1 THEN <<MkStr(FALSE, FALSE, Tail(x0.segs))>> ELSE <<>>)
           good == SelectSeq(cands, LAMBDA cnd : ResolveT(SL, cnd, src) = id0) IN
       IF id0 = "" \/ Len(good) = 0 THEN tg ELSE good[1]

\* composite guards: operands under `children` <-> under `params.guards`
RECURSIVE RwGuard(_, _)
RwGuard(g, rs) ==
  IF "guard_kids" \notin rs \/ ~IsO(g) \/ ~IsS(G(g, "type")) \/ G(g, "type").s \notin Composite THEN g
  ELSE LET kids == GuardKidsCfg(g)
           kids2 == MkList([i \in 1..Len(kids.vs) |-> RwGuard(kids.vs[i], rs)]) IN
       IF Truthy(G(g, "children")) /\ ~Has(g, "params")
       THEN With(Without(g, "children"), "params", Obj1("guards", kids2))
       ELSE IF ~Has(g, "children") /\ IsO(G(g, "params")) /\ Len(G(g, "params").ks) = 1 /\ Truthy(G(G(g, "params"), "guards"))
       THEN With(Without(g, "params"), "children", kids2)
       ELSE g

RwT1(SL, x, src, rs) ==        \* one transition: "target" or {..}
  IF IsS(x) THEN LET t2 == RwTarget(SL, x, src, rs) IN IF "tr_obj" \in rs THEN Obj1("target", t2) ELSE t2
  ELSE LET a == IF Has(x, "target") THEN With(x, "target", RwTarget(SL, G(x, "target"), src, rs)) ELSE x
           b == IF Has(a, "actions") THEN With(a, "actions", RwActs(G(a, "actions"), rs)) ELSE a
           b2 == IF Has(b, "guard") THEN With(b, "guard", RwGuard(G(b, "guard"), rs))
                 ELSE IF Has(b, "cond") THEN With(b, "cond", RwGuard(G(b, "cond"), rs)) ELSE b
           c == IF "cond_guard" \in rs
                THEN (IF Has(b2, "guard") /\ ~Has(b2, "cond") THEN Renamed(b2, "guard", "cond")
                      ELSE IF Has(b2, "cond") /\ ~Has(b2, "guard") THEN Renamed(b2, "cond", "guard") ELSE b2)
                ELSE b2
       IN IF "tr_str" \in rs /\ Len(c.ks) = 1 /\ Has(c, "target") /\ IsS(G(c, "target")) THEN G(c, "target") ELSE c
RwT(SL, v, src, rs) ==         \* a transition site
  IF IsZ(v) THEN v
  ELSE IF IsL(v) THEN (IF Len(v.vs) = 1 /\ "tr_unlist" \in rs THEN RwT1(SL, v.vs[1], src, rs)
                       ELSE MkList([i \in 1..Len(v.vs) |-> RwT1(SL, v.vs[i], src, rs)]))
  ELSE IF "tr_list" \in rs THEN MkList(<<RwT1(SL, v, src, rs)>>) ELSE RwT1(SL, v, src, rs)

RwMap(SL, m, src, rs, delays) ==
  [t |-> "o",
   ks |-> [i \in 1..Len(m.ks) |-> IF delays /\ "delay_key" \in rs /\ m.ks[i].isnum
                                  THEN [m.ks[i] EXCEPT !.py = IF m.ks[i].py = "s" THEN "n" ELSE "s"] ELSE m.ks[i]],
   vs |-> [i \in 1..Len(m.ks) |-> RwT(SL, m.vs[i], src, rs)]]

RwInvoke(SL, v, src, rs) ==
  LET one(iv) == LET a == IF Has(iv, "onDone") THEN With(iv, "onDone", RwT(SL, G(iv, "onDone"), src, rs)) ELSE iv
                     b == IF Has(a, "onError") THEN With(a, "onError", RwT(SL, G(a, "onError"), src, rs)) ELSE a IN b
  IN IF IsL(v) THEN MkList([i \in 1..Len(v.vs) |-> one(v.vs[i])]) ELSE IF IsO(v) THEN one(v) ELSE v

RECURSIVE RwState(_, _, _, _)
RwState(SL, c0, id, rs) ==
  LET x == ById(SL, id)
      c1 == IF Has(c0, "entry") THEN With(c0, "entry", RwActs(G(c0, "entry"), rs)) ELSE c0
      c2 == IF Has(c1, "exit") THEN With(c1, "exit", RwActs(G(c1, "exit"), rs)) ELSE c1
      c3 == IF Has(c2, "on") THEN With(c2, "on", RwMap(SL, G(c2, "on"), id, rs, FALSE)) ELSE c2
      c4 == IF Has(c3, "after") THEN With(c3, "after", RwMap(SL, G(c3, "after"), id, rs, TRUE)) ELSE c3
      c5 == IF ~IsZ(G(c4, "always")) THEN With(c4, "always", RwT(SL, G(c4, "always"), id, rs)) ELSE c4
      c6 == IF Truthy(G(c5, "onDone")) THEN With(c5, "onDone", RwT(SL, G(c5, "onDone"), id, rs)) ELSE c5
      c7 == IF Has(c6, "invoke") THEN With(c6, "invoke", RwInvoke(SL, G(c6, "invoke"), id, rs)) ELSE c6
      \* always <-> on[""]
      c8 == IF "always_on" \in rs
            THEN LET on == IF Has(c7, "on") THEN G(c7, "on") ELSE EmptyObj IN
                 IF ~IsZ(G(c7, "always")) /\ ~Has(on, "")
                 THEN With(Without(c7, "always"), "on", With(on, "", G(c7, "always")))
                 ELSE IF IsZ(G(c7, "always")) /\ ~Has(c7, "always") /\ Has(on, "") /\ ~IsZ(G(on, ""))
                 THEN With(With(c7, "on", Without(on, "")), "always", G(on, ""))
                 ELSE c7
            ELSE c7
      kids == NonHistKids(SL, id)
      c9 == IF "initial_omit" \in rs /\ KindOf(c8) = "compound" /\ IsS(G(c8, "initial")) /\ Len(kids) = 1
               /\ kids[1].key = G(c8, "initial").s
            THEN Without(c8, "initial") ELSE c8
  IN IF Has(c9, "states")
     THEN LET sts == G(c9, "states") IN
          With(c9, "states", [sts EXCEPT !.vs = [i \in 1..Len(sts.ks) |-> RwState(SL, sts.vs[i], id \o "." \o sts.ks[i].s, rs)]])
     ELSE c9

Apply(J, rs) == RwState(StateList(J), J, G(J, "id").s, rs)

(***************************************************************************)
(* Single-point corruptions                                                *)
(***************************************************************************)
RECURSIVE Nodes(_, _)
Nodes(v, p) == {p} \cup (IF IsO(v) \/ IsL(v) THEN UNION {Nodes(v.vs[i], Append(p, i)) : i \in 1..Len(v.vs)} ELSE {})
RECURSIVE At(_, _)
At(v, p) == IF Len(p) = 0 THEN v ELSE At(v.vs[p[1]], Tail(p))
RECURSIVE Corrupt(_, _, _)
Corrupt(v, p, w) == IF Len(p) = 0 THEN w ELSE [v EXCEPT !.vs[p[1]] = Corrupt(v.vs[p[1]], Tail(p), w)]
\* key path of a node, for reporting: the object keys / list positions leading to it
RECURSIVE KeyPath(_, _)
KeyPath(v, p) == IF Len(p) = 0 THEN <<>>
                 ELSE <<IF IsO(v) THEN v.ks[p[1]].s ELSE "[" \o ToString(p[1]) \o "]">> \o KeyPath(v.vs[p[1]], Tail(p))

ZZ == [t |-> "s", s |-> "zz", hash |-> FALSE, dot |-> FALSE, segs |-> <<"zz">>]
EmptyStr == [t |-> "s", s |-> "", hash |-> FALSE, dot |-> FALSE, segs |-> <<"">>]
WrongValues == {Null, [t |-> "b", b |-> TRUE], [t |-> "b", b |-> FALSE], [t |-> "n", n |-> 7], [t |-> "n", n |-> 0],
                ZZ, EmptyStr, MkList(<<>>), MkList(<<ZZ>>), EmptyObj, Obj1("zz", ZZ)}
=============================================================================
