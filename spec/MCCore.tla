------------------------------- MODULE MCCore -------------------------------
(***************************************************************************)
(* Model-checking instance of the core step semantics.                     *)
(*                                                                         *)
(* State = a quiescent interpreter over definition `mi` of the batch;      *)
(* actions = the public steps Start / Send(e, gv) / Can(e, gv).            *)
(* TLC explores every reachable quiescent state of every definition and    *)
(* every event and guard valuation from it.  `out` (the log of the last    *)
(* step) and `lastStep` are hidden from the VIEW so they do not multiply   *)
(* states; ACTION_CONSTRAINT Emit prints one JSON line per explored edge   *)
(* with the Prop verdicts of that edge.                                    *)
(***************************************************************************)
EXTENDS SCProps, Json

CONSTANTS Engine,      \* "sync" | "async"
          GuardVals,   \* subset of {"T","F","R"} each guard may take per step
          WithCan,     \* TRUE: also explore can(e)
          FaultPairs,  \* TRUE: fault sets of two actions as well
          PropSet,     \* ids of the Prop predicates to evaluate on every edge
          WithBatch,   \* TRUE: also explore send_events([e1, e2]) for every pair of relevant events
          WithLifecycle, \* TRUE: also explore stop() and repeated start() from every state
          WithFaults,  \* TRUE: also explore every step with one of its user actions raising
          WithBurst,   \* TRUE: also explore send_events of maxIterations+2 copies of each relevant event
          MaxStates    \* quick tier: stop expanding once this many distinct states were found

VARIABLES status, config, hist, ctx, output, out, lastStep, errv, dirty
vars == <<mi, status, config, hist, ctx, output, out, lastStep, errv, dirty>>

Pack == [config |-> config, hist |-> hist, status |-> status, ctx |-> ctx, queue |-> <<>>,
         out |-> <<>>, err |-> NoErr, rd |-> 0, output |-> output, gv |-> <<>>, faults |-> {}, halt |-> FALSE, slow |-> 0]

HistOwnersOf(m) == {s \in Machines[m].states :
                      \E i \in 1..Len(Machines[m].children[s]) :
                         Machines[m].kind[Machines[m].children[s][i]] = "history"}

Init == /\ mi \in 1..Len(Machines)
        /\ status = "uninitialized" /\ config = {}
        /\ hist = [p \in HistOwnersOf(mi) |-> {}]
        /\ ctx = Machines[mi].ctx0
        /\ output = NONE
        /\ out = <<>> /\ lastStep = [op |-> "init", ev |-> "", gv |-> <<>>]
        /\ errv = NoErr /\ dirty = FALSE

Apply(st, step) ==
  /\ config' = st.config /\ status' = st.status /\ ctx' = st.ctx
  \* a PureSnapshot carries no history
  /\ hist' = IF Engine = "pure" THEN [p \in DOMAIN st.hist |-> {}] ELSE st.hist
  /\ output' = st.output
  /\ out' = st.out /\ lastStep' = step /\ errv' = st.err
  \* a step that raised out of the public call may leave events in the queue (sync) or a
  \* half-started interpreter; the quiescent-state model does not continue from there
  /\ dirty' = (st.err # NoErr /\ (st.queue # <<>> \/ step.op = "start"))
  /\ UNCHANGED mi

GVs == [D.guards -> GuardVals]

\* a step that raised leaves residue the quiescent-state model does not carry
\* (events left in the queue); exploration does not continue from such a state
\* ... nor from an illegal configuration: only the FIRST illegal state of a run
\* is attributable to a step
Usable == ~dirty /\ (status = "uninitialized" \/ Legal(config))

Start == /\ Usable /\ status = "uninitialized"
         /\ \E gv \in GVs : Apply(StartStep(Pack, gv, Engine), [op |-> "start", ev |-> "", gv |-> gv])

\* the pure API builds a fresh probe per call: history is forgotten and the status
\* is forced to "running" (helpers.transition)
PackSend == IF Engine = "pure"
            THEN [Pack EXCEPT !.hist = [p \in DOMAIN hist |-> {}], !.output = NONE]
            ELSE Pack
PureIgnores == Engine = "pure" /\ status # "running"    \* done / error snapshots are returned unchanged

\* An event for which no active state declares a matching `on` key takes exactly the path of
\* any other such event (no candidate from `on`; eventless candidates are considered alike), so
\* one representative - "__nope__" - is explored for all of them.
Relevant == {e \in D.events : e = "__nope__" \/ \E s \in config : MatchingKeys(s, e) # <<>>}

Send == /\ Usable /\ status # "uninitialized"
        /\ \E ev \in Relevant : \E gv \in GVs :
              Apply(IF PureIgnores THEN Pack ELSE SendStep(PackSend, ev, gv, Engine),
                    [op |-> "send", ev |-> ev, gv |-> gv])

Can == /\ WithCan /\ Usable /\ status # "uninitialized"
       /\ \E ev \in Relevant : \E gv \in GVs :
             Apply(CanStep(Pack, ev, gv), [op |-> "can", ev |-> ev, gv |-> gv])

Batch == /\ WithBatch /\ Engine # "pure" /\ Usable /\ status = "running"
         /\ \E e1 \in Relevant : \E e2 \in D.events : \E gv \in GVs :
               Apply(BatchStep(Pack, <<e1, e2>>, gv, Engine), [op |-> "batch", ev |-> e1, evs |-> <<e1, e2>>, gv |-> gv])

\* a burst of maxIterations + 2 copies of one event sent from outside in one call
BatchN == /\ WithBurst /\ Engine # "pure" /\ Usable /\ status = "running"
          /\ \E e \in Relevant : \E gv \in GVs :
                LET evs == [i \in 1..(D.maxIter + 2) |-> e]
                IN Apply(BatchStep(Pack, evs, gv, Engine), [op |-> "batch", ev |-> e, evs |-> evs, gv |-> gv])

\* fault injection: the step is repeated with ONE of the user actions its fault-free run executes
\* made to raise (single faults; pairs are a thorough-tier option through FaultPairs)
ActNamesSet(o) == {o[i].a : i \in {x \in 1..Len(o) : o[x].k = "act"}}
FaultSets(clean) == LET A == ActNamesSet(clean.out)
                    IN {{f} : f \in A} \cup (IF FaultPairs THEN {{f, g} : f \in A, g \in A} ELSE {})
FaultySend == /\ WithFaults /\ Usable /\ status = "running"
              /\ \E ev \in Relevant : \E gv \in GVs :
                    LET clean == SendStep(PackSend, ev, gv, Engine)
                    IN \E F \in FaultSets(clean) :
                          Apply(SendStep([PackSend EXCEPT !.faults = F], ev, gv, Engine),
                                [op |-> "send", ev |-> ev, gv |-> gv, faults |-> F])
FaultyStart == /\ WithFaults /\ Usable /\ status = "uninitialized"
               /\ \E gv \in GVs :
                     LET clean == StartStep(Pack, gv, Engine)
                     IN \E F \in FaultSets(clean) :
                           Apply(StartStep([Pack EXCEPT !.faults = F], gv, Engine),
                                 [op |-> "start", ev |-> "", gv |-> gv, faults |-> F])

Stop == /\ WithLifecycle /\ Engine # "pure" /\ ~dirty
        /\ Apply(StopStep(Pack), [op |-> "stop", ev |-> "", gv |-> <<>>])
Restart == /\ WithLifecycle /\ Engine # "pure" /\ ~dirty /\ status # "uninitialized"
           /\ Apply(RestartStep(Pack), [op |-> "start", ev |-> "", gv |-> <<>>])
\* with lifecycle exploration sends are also tried on done / failed / stopped interpreters
SendAfterEnd == /\ WithLifecycle /\ ~dirty /\ status \in {"done", "error", "stopped"}
                /\ \E ev \in D.events : Apply(SendStep(PackSend, ev, <<>>, Engine), [op |-> "send", ev |-> ev, gv |-> <<>>])

Next == Start \/ Send \/ Can \/ Batch \/ BatchN \/ FaultySend \/ FaultyStart \/ Stop \/ Restart \/ SendAfterEnd
Spec == Init /\ [][Next]_vars

\* breadth-first prefix of the state graph when the bound bites (evidence: exhaustive = false)
Bound == TLCGet("distinct") <= MaxStates

View == <<mi, status, config, hist, ctx, output, dirty>>

--------------------------------------------------------------------------
Proj(c, h, s, x, o, e) == [config |-> c, hist |-> h, status |-> s, ctx |-> x, output |-> o, err |-> e]
PreS  == Proj(config, hist, status, ctx, output, errv)
PostS == Proj(config', hist', status', ctx', output', errv')

--------------------------------------------------------------------------
(* C05 on the Impl layer: the three engines started from the same abstract state and given the   *)
(* same step must agree on configuration, context, status, output and on the ordered action     *)
(* lists (executed, with their triggering event, for sync/async; reported for the pure API).    *)
(* A PureSnapshot carries configuration, context, status, output only.                           *)

StepOn(eng, step) ==
  LET pk == IF eng = "pure" /\ step.op = "send"
            THEN [Pack EXCEPT !.hist = [p \in DOMAIN hist |-> {}], !.output = NONE]
            ELSE Pack
  IN CASE step.op = "start" -> StartStep(pk, step.gv, eng)
       [] step.op = "send" /\ eng = "pure" /\ status # "running" -> Pack
       [] step.op = "send"  -> SendStep(pk, step.ev, step.gv, eng)
       [] step.op = "batch" /\ eng # "pure" -> BatchStep(pk, step.evs, step.gv, eng)
       [] OTHER -> pk
ActsOf(o) == SelectSeq(o, LAMBDA e : e.k = "act")
ActNames(o) == LET q == ActsOf(o) IN [i \in 1..Len(q) |-> q[i].a]
AxNames(o) == LET q == SelectSeq(o, LAMBDA e : e.k = "ax") IN [i \in 1..Len(q) |-> q[i].a]
RecNames(o) == LET q == SelectSeq(o, LAMBDA e : e.k = "rec") IN [i \in 1..Len(q) |-> q[i].a]
SameState(x, y) == x.config = y.config /\ x.ctx = y.ctx /\ x.status = y.status /\ x.output = y.output

C05Spec(step) ==
  IF step.op \notin {"start", "send", "batch"} THEN {}
  ELSE LET s == StepOn("sync", step)
           a == StepOn("async", step)
           p == StepOn("pure", step)
       IN IF s.err # NoErr \/ a.err # NoErr \/ p.err # NoErr THEN {}
          ELSE Tag(SameState(s, a), "sync_async_state")
               \cup Tag(ActNames(s.out) = ActNames(a.out), "sync_async_action_order")
               \cup Tag(ActsOf(s.out) = ActsOf(a.out) \/ ActNames(s.out) # ActNames(a.out), "sync_async_action_event")
               \cup Tag(step.op = "batch" \/ SameState(s, p), "sync_pure_state")
               \cup Tag(step.op = "batch" \/ AxNames(s.out) = RecNames(p.out), "sync_pure_actions")

FaultsOf(step) == IF "faults" \in DOMAIN step THEN step.faults ELSE {}
C07Spec(step, post, o) ==
  C07Abort(PreS, step, post, o)
  \cup (IF FaultsOf(step) = {} THEN {}
       ELSE LET clean == StepOn(Engine, [op |-> step.op, ev |-> step.ev, gv |-> step.gv])
            IN C07Pair([config |-> clean.config, status |-> clean.status, hist |-> clean.hist, err |-> clean.err],
                       clean.out, post, o, FaultsOf(step)))

On(p, v) == IF p \in PropSet THEN v ELSE {}
Props == [C01 |-> On("C01", C01(PreS, lastStep', PostS, out')),
          C02 |-> On("C02", C02(PreS, lastStep', PostS, out')),
          C03 |-> On("C03", C03(PreS, lastStep', PostS, out')),
          C10 |-> On("C10", C10(PreS, lastStep', PostS, out', Engine)),
          C11 |-> On("C11", C11(PreS, lastStep', PostS, out', Engine)),
          C05 |-> On("C05", C05Spec(lastStep')),
          C06 |-> On("C06", C06(PreS, lastStep', PostS, out')),
          C20 |-> On("C20", C20(PreS, lastStep', PostS, out')),
          C13 |-> On("C13", C13(PreS, lastStep', PostS, out')),
          C07 |-> On("C07", C07Spec(lastStep', PostS, out')),
          C14 |-> On("C14", C14(PreS, lastStep', PostS, out')),
          C04 |-> On("C04", C04(PreS, lastStep', PostS, out'))]

Emit == PrintT(ToJson([mi |-> mi, from |-> PreS, step |-> lastStep', to |-> PostS, dirty |-> dirty',
                       out |-> out', prop |-> Props]))

\* spec-level invariants (informational: a failure is replayed on the real engine)
LegalInv == status \in {"running", "done", "error"} /\ ~dirty => Legal(config)
=============================================================================
