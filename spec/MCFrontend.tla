----------------------------- MODULE MCFrontend -----------------------------
(***************************************************************************)
(* Enumerations over spec/Frontend.tla for a batch of raw configs          *)
(* (module FBatch: Configs == << TJ, .. >>, written by the harness).       *)
(*                                                                         *)
(*   Mode = "rewrite": every config x every rewrite set in RewriteSets:    *)
(*       the respelt config, whether the specification itself assigns it   *)
(*       the same normal form (SpellingInvariant), and the normal form.    *)
(*   Mode = "corrupt": every config x every node x every wrong JSON value: *)
(*       the demanded verdict class and, for "accept", the normal form.    *)
(* One JSON line per case; the harness feeds each case to the library.     *)
(***************************************************************************)
EXTENDS Frontend, FBatch, Json

CONSTANTS Mode, RewriteSets, Stride, Offset

VARIABLES ci, phase, rs, path, wv
vars == <<ci, phase, rs, path, wv>>

J == Configs[ci]

Init == /\ ci \in 1..Len(Configs)
        /\ phase = "pick"
        /\ rs = {} /\ path = <<>> /\ wv = Null

PickRewrite == /\ Mode = "rewrite" /\ phase = "pick" /\ phase' = "done"
               /\ rs' \in RewriteSets
               /\ UNCHANGED <<ci, path, wv>>
\* thinning for the quick tier: only the nodes whose path checksum is Offset modulo Stride (Stride = 1: all)
RECURSIVE PathSum(_)
PathSum(p) == IF Len(p) = 0 THEN 0 ELSE (Head(p) * (Len(p) + 2) + 3 * PathSum(Tail(p))) % 1009
PickCorrupt == /\ Mode = "corrupt" /\ phase = "pick" /\ phase' = "done"
               /\ path' \in {p \in Nodes(J, <<>>) : Len(p) = 0 \/ PathSum(p) % Stride = Offset % Stride}
               /\ wv' \in WrongValues
               /\ At(J, path').t # wv'.t
               /\ UNCHANGED <<ci, rs>>
Next == PickRewrite \/ PickCorrupt
Spec == Init /\ [][Next]_vars

J2 == IF Mode = "rewrite" THEN Apply(J, rs') ELSE Corrupt(J, path', wv')
Cls2 == Class(J2)

\* the specification's own theorem about itself: a respelling denotes the same machine
SpellingInvariant == Mode = "rewrite" => (Class(J) = "accept" => (Cls2 = "accept" /\ Norm(J2) = Norm(J)))

Emit ==
  LET cls == Cls2 IN
  PrintT(ToJson(
    IF Mode = "rewrite"
    THEN [ci |-> ci, rs |-> rs', cls |-> cls, base |-> Class(J),
          same |-> (Class(J) = "accept" => (cls = "accept" /\ Norm(J2) = Norm(J))),
          cfg |-> J2,
          nf |-> IF cls = "accept" /\ (rs' = {} \/ Norm(J2) # Norm(J)) THEN Norm(J2) ELSE Null,
          probs |-> Probs(J2)]
    ELSE [ci |-> ci, p |-> path', keys |-> KeyPath(J, path'), was |-> At(J, path').t, w |-> wv', cls |-> cls,
          probs |-> Probs(J2),
          nf |-> IF cls = "accept" THEN Norm(J2) ELSE Null]))
=============================================================================
