------------------------------ MODULE SCActors ------------------------------
(***************************************************************************)
(* Actor layer (async engine): spawning, addressing, delivery, delayed     *)
(* sends with cancel, stopChild, stop(), the system registry.              *)
(*                                                                         *)
(* Mirrors base_interpreter.py _resolve_actor_target / _register_in_system *)
(* / _system_registry / _cancel_scheduled_send, interpreter.py             *)
(* _spawn_actor / _spawn_child_action / _deliver / _send_to_actor /        *)
(* _stop_child_actor / stop().                                             *)
(*                                                                         *)
(* The system under test is a fixed DRIVER machine "m" (harness/actors.py) *)
(* whose events run one built-in action each with literal params, plus a   *)
(* child template "kid" that records every event it processes, answers     *)
(* PING with sendParent(PONG), ESC with escalate, GSP with                 *)
(* spawnChild(src g, id g1, systemId sg) and GST with sendTo(g1, X).       *)
(* One driver step = one event sent to m (or a deadline), after which all  *)
(* tasks run until they block.                                             *)
(*                                                                         *)
(* Actor ids are sequences of segments: <<"m">>, <<"m","a1">> (explicit),  *)
(* <<"m","w","#3">> (auto: key + fresh symbol, the n-th uuid).             *)
(***************************************************************************)
EXTENDS Naturals, Sequences, FiniteSets, TLC, Json

CONSTANTS Ops,        \* sequence of operation records the driver machine offers (generated with the machine)
          MaxDepth, MaxActors, PropSetA

VARIABLES alive,      \* set of actor ids whose interpreter is running
          fin,        \* actor ids whose machine reached a top-level final state (status done): they process nothing any
                      \* more but keep their place in the children map and the registry, and their own children keep running
          kids,       \* actor id -> set of child ids in its _actors map
          par,        \* actor id -> parent id ("NONE" for the root)
          segs,       \* actor id -> set of id segments after the first (actor_id.split(":")[1:])
          src,        \* actor id -> service key it was spawned from (parent's _actor_sources)
          sys,        \* systemId -> actor id (root registry)
          rec,        \* actor id -> sequence of event types it processed
          pend,       \* set of [owner, sid, to, ev, due, n]: delayed sends not yet delivered / cancelled
          sends,      \* owner -> (send id -> n): the _scheduled_sends registry
          born,       \* actor id -> creation order (dict insertion order of the maps)
          orphans,    \* bag (sequence) of ids of interpreters that keep running after their id was re-used
          bctr,       \* number of interpreters created so far (born[id] = incarnation of the actor holding id)
          now, ctr, sctr, warn, lastOp, stoppedRoot
avars == <<alive, fin, kids, par, segs, src, sys, rec, pend, sends, born, orphans, bctr, now, ctr, sctr, warn, lastOp, stoppedRoot>>

Root == "m"
NONE == "NONE"

Init == /\ alive = {Root} /\ fin = {} /\ kids = (Root :> {}) /\ par = (Root :> NONE) /\ segs = (Root :> {})
        /\ src = <<>> /\ sys = <<>>
        /\ rec = (Root :> <<>>) /\ pend = {} /\ sends = (Root :> <<>>) /\ born = (Root :> 0) /\ orphans = <<>>
        /\ bctr = 1 /\ now = 0 /\ ctr = 1 /\ sctr = 1 /\ warn = 0 /\ lastOp = [op |-> "init"] /\ stoppedRoot = FALSE

--------------------------------------------------------------------------
\* _resolve_actor_target from actor `a` over a threaded state record; NONE = unresolved / ambiguous
ResolveIn(st, a, spec) ==
  IF spec \in DOMAIN st.sys THEN st.sys[spec]
  ELSE LET ks == st.kids[a]
           seg == {k \in ks : spec \in st.segs[k]}
           bysrc == {k \in ks : k \in DOMAIN st.src /\ st.src[k] = spec}
       IN IF Cardinality(seg) = 1 THEN CHOOSE k \in seg : TRUE
          ELSE IF Cardinality(seg) > 1 THEN NONE
          \* the recorded service keys are searched in insertion order: the oldest child wins
          ELSE IF bysrc # {} THEN CHOOSE k \in bysrc : \A j \in bysrc : st.born[k] <= st.born[j]
          ELSE IF spec \in {"parent", "#parent"} /\ st.par[a] # NONE THEN st.par[a]
          ELSE NONE

RECURSIVE DescIn(_, _)
DescIn(st, a) == {a} \cup UNION {DescIn(st, k) : k \in (IF a \in DOMAIN st.kids THEN st.kids[a] ELSE {})}

Ext(f, k, v) == [x \in DOMAIN f \cup {k} |-> IF x = k THEN v ELSE f[x]]

\* stopping actor c (and everything below it): interpreters stop, their pending sends are cancelled
StopTree(st, c) ==
  LET D == {d \in DescIn(st, c) : d \in st.alive \cup st.fin}
  IN [st EXCEPT !.alive = @ \ D, !.fin = @ \ D, !.pend = {p \in @ : p.owner \notin D},
                \* every stopped interpreter drops its own systemId registrations
                !.sys = [x \in {y \in DOMAIN @ : @[y] \notin D} |-> @[x]]]

\* _spawn_actor in actor a: explicit id eid (or NONE -> auto id with a fresh symbol), optional systemId.
\* An explicit id that is already in use overwrites the map entry (the old child keeps running, unreachable).
SpawnIn(st, a, key, eid, sid) ==
  LET id == IF eid # NONE THEN a \o ":" \o eid ELSE a \o ":" \o key \o ":#" \o ToString(st.ctr)
      sg == st.segs[a] \cup (IF eid # NONE THEN {eid} ELSE {key, "#" \o ToString(st.ctr)})
      \* re-used explicit id: the child that held it is stopped (with its subtree) before the new one is registered
      st0 == IF id \in st.alive \cup st.fin THEN StopTree(st, id) ELSE st
      st1 == [st0 EXCEPT !.alive = @ \cup {id},
                        !.born = Ext(@, id, st.bctr), !.bctr = @ + 1,
                        !.kids = Ext(Ext(@, a, @[a] \cup {id}), id, {}),
                        !.par = Ext(@, id, a), !.segs = Ext(@, id, sg),
                        !.src = Ext(@, id, key),
                        !.rec = IF id \in DOMAIN @ THEN @ ELSE Ext(@, id, <<>>),     \* the ledger is per actor id
                        !.sends = Ext(@, id, <<>>),
                        !.ctr = IF eid # NONE THEN @ ELSE @ + 1]
  IN IF sid # NONE THEN [st1 EXCEPT !.sys = Ext(@, sid, id)] ELSE st1

\* the state after actor `to` (if running) processes event ev; the kid template reacts
RECURSIVE Deliver(_, _, _, _)
Deliver(st, to, ev, fuel) ==
  IF to = NONE \/ to \notin st.alive \/ fuel = 0 THEN st
  ELSE LET st1 == [st EXCEPT !.rec[to] = Append(@, ev)]
           p == st.par[to]
       IN IF to = Root THEN st1
          ELSE IF ev = "FIN" THEN [st1 EXCEPT !.alive = @ \ {to}, !.fin = @ \cup {to}]   \* the child completes
          ELSE IF ev = "PING" THEN Deliver(st1, p, "PONG", fuel - 1)                  \* sendParent
          ELSE IF ev = "ESC" THEN Deliver(st1, p, "ESCALATED", fuel - 1)               \* escalate
          ELSE IF ev = "GSP" THEN SpawnIn(st1, to, "g", "g1", "sg")                  \* spawnChild in the child
          ELSE IF ev = "GST" THEN
               LET t == ResolveIn(st1, to, "g1")
               IN IF t = NONE THEN [st1 EXCEPT !.warn = @ + 1] ELSE Deliver(st1, t, "X", fuel - 1)
          ELSE st1

Pack == [alive |-> alive, fin |-> fin, kids |-> kids, par |-> par, segs |-> segs, src |-> src, sys |-> sys, rec |-> rec,
         pend |-> pend, sends |-> sends, born |-> born, orphans |-> orphans, bctr |-> bctr, ctr |-> ctr, sctr |-> sctr, warn |-> warn]
Commit(st, op, t) ==
  /\ alive' = st.alive /\ fin' = st.fin /\ kids' = st.kids /\ par' = st.par /\ segs' = st.segs /\ src' = st.src /\ sys' = st.sys /\ rec' = st.rec /\ pend' = st.pend
  /\ sends' = st.sends /\ born' = st.born /\ orphans' = st.orphans /\ bctr' = st.bctr /\ ctr' = st.ctr /\ sctr' = st.sctr /\ warn' = st.warn /\ now' = t /\ lastOp' = op
  /\ stoppedRoot' = (stoppedRoot \/ op.op = "stop")

--------------------------------------------------------------------------
\* Driver operations, each performed by the root processing one event
DoOp(o) ==
  LET st0 == [Pack EXCEPT !.rec[Root] = Append(@, o.name)] IN
  CASE o.op = "spawn" -> Commit(SpawnIn(st0, Root, o.key, o.eid, o.sid), o, now)
    [] o.op = "send" ->
         LET t == ResolveIn(st0, Root, o.to)
         IN IF t = NONE THEN Commit([st0 EXCEPT !.warn = @ + 1], o, now)
            ELSE IF o.delay = 0 THEN Commit(Deliver(st0, t, o.ev, 4), o, now)
            ELSE \* delayed: registered under the send id (a reused id supersedes the earlier send)
                 LET n == st0.sctr
                     old == IF o.sid # NONE /\ o.sid \in DOMAIN st0.sends[Root] THEN {st0.sends[Root][o.sid]} ELSE {}
                     st1 == [st0 EXCEPT !.pend = {p \in @ : ~(p.owner = Root /\ p.n \in old)}
                                                \cup {[owner |-> Root, sid |-> o.sid, to |-> t, inc |-> st0.born[t], ev |-> o.ev, due |-> now + o.delay, n |-> n]},
                                        !.sends[Root] = IF o.sid = NONE THEN @
                                                        ELSE [x \in DOMAIN @ \cup {o.sid} |-> IF x = o.sid THEN n ELSE @[x]],
                                        !.sctr = @ + 1]
                 IN Commit(st1, o, now)
    [] o.op = "cancel" ->
         LET hit == IF o.sid \in DOMAIN st0.sends[Root] THEN {st0.sends[Root][o.sid]} ELSE {}
         IN Commit([st0 EXCEPT !.pend = {p \in @ : ~(p.owner = Root /\ p.n \in hit)},
                               !.sends[Root] = [x \in DOMAIN @ \ {o.sid} |-> @[x]]], o, now)
    [] o.op = "stopchild" ->
         LET t == ResolveIn(st0, Root, o.to)
         IN IF t = NONE THEN Commit([st0 EXCEPT !.warn = @ + 1], o, now)
            ELSE LET st1 == StopTree(st0, t)
                 IN Commit([st1 EXCEPT !.kids[Root] = @ \ {t},
                                       !.src = [x \in DOMAIN @ \ {t} |-> @[x]],
                                       !.sys = [x \in {y \in DOMAIN @ : @[y] # t} |-> @[x]]], o, now)
    [] OTHER -> Commit(st0, o, now)

Step == /\ ~stoppedRoot /\ Cardinality(alive) <= MaxActors
        /\ \E i \in 1..Len(Ops) : DoOp(Ops[i])

\* virtual time moves to the earliest deadline: every delayed send due then is delivered, in registration order.
\* A send's task holds a reference to the ACTOR it resolved (not to its id): if that interpreter has been stopped
\* - also when another actor has taken over its id since - nothing is delivered.
RECURSIVE Fire(_, _)
Fire(st, due) ==
  IF due = {} THEN st
  ELSE LET p == CHOOSE x \in due : \A y \in due : x.n <= y.n
           st0 == [st EXCEPT !.pend = {q \in @ : q.n # p.n},
                             !.sends[p.owner] = [x \in {y \in DOMAIN @ : @[y] # p.n} |-> @[x]]]
           same == p.to \in DOMAIN st0.born /\ st0.born[p.to] = p.inc
       IN Fire(IF same THEN Deliver(st0, p.to, p.ev, 4) ELSE st0, {q \in due \ {p} : q.n \in {r.n : r \in st0.pend}})
Advance ==
  /\ pend # {}
  /\ LET d == CHOOSE x \in {p.due : p \in pend} : \A y \in {p.due : p \in pend} : x <= y
     IN Commit(Fire(Pack, {p \in pend : p.due = d}), [op |-> "advance", name |-> "advance"], d)

\* stop() of the root: children stopped recursively, children map cleared, tasks cancelled
StopRoot ==
  /\ ~stoppedRoot
  /\ LET st1 == StopTree(Pack, Root)
     IN Commit([st1 EXCEPT !.kids[Root] = {}, !.pend = {}], [op |-> "stop", name |-> "stop"], now)

\* events sent to the root after stop are dropped
Next == Step \/ Advance \/ StopRoot
Spec == Init /\ [][Next]_avars
Bound == TLCGet("level") <= MaxDepth
View == <<alive, fin, kids, src, sys, rec, pend, sends, born, orphans, now, stoppedRoot>>
Resolve(a, spec) == ResolveIn(Pack, a, spec)
Desc(a) == DescIn(Pack, a)

--------------------------------------------------------------------------
(* Prop C15 on one step (pre = unprimed, post = primed)                      *)
Tag(b, t) == IF b THEN {} ELSE {t}
RecLen(r, a) == IF a \in DOMAIN r THEN Len(r[a]) ELSE 0
C15Step ==
  LET o == lastOp'
      newActors == alive' \ alive
      grew == {a \in DOMAIN rec' : a # Root /\ RecLen(rec', a) > RecLen(rec, a)}
  IN CASE o.op = "spawn" ->
            \* exactly one started child, registered under its id (and systemId)
            Tag(Cardinality(newActors) = 1 \/ (o.eid # NONE /\ (Root \o ":" \o o.eid) \in alive), "spawn_exactly_one")
            \cup Tag(orphans' = orphans, "reused_id_orphans_running_actor")
            \cup Tag(\A a \in newActors : a \in kids'[Root], "spawn_registered_as_child")
            \cup Tag(o.sid # NONE => (o.sid \in DOMAIN sys' /\ sys'[o.sid] \in newActors \cup {Root \o ":" \o o.eid}), "spawn_registered_in_system")
       [] o.op = "send" /\ o.delay = 0 ->
            LET t == Resolve(Root, o.to) IN
            IF t = NONE THEN Tag(grew = {} /\ newActors = {}, "undeliverable_send_delivered_somewhere")
            ELSE Tag(t \notin alive \/ (RecLen(rec', t) >= RecLen(rec, t) + 1 /\ rec'[t][RecLen(rec, t) + 1] = o.ev),
                     "not_delivered_to_target")
                 \cup Tag(\A a \in grew : a = t \/ a \in Desc(t), "delivered_to_another_actor")
       [] o.op = "send" /\ o.delay > 0 -> Tag(grew = {}, "delayed_send_delivered_early")
       [] o.op = "cancel" ->
            Tag({p.n : p \in pend} \ {p.n : p \in pend'} \subseteq
                   (IF o.sid \in DOMAIN sends[Root] THEN {sends[Root][o.sid]} ELSE {}), "cancel_removed_other_send")
            \cup Tag(o.sid \in DOMAIN sends[Root] => sends[Root][o.sid] \notin {p.n : p \in pend'}, "cancel_did_not_remove")
       [] o.op = "stopchild" ->
            LET t == Resolve(Root, o.to) IN
            IF t = NONE THEN Tag(alive' = alive, "stopchild_unresolved_changed_something")
            ELSE Tag(Desc(t) \cap (alive' \cup fin') = {}, "stopchild_left_descendant_running")
                 \cup Tag(t \notin kids'[Root], "stopchild_left_in_children_map")
                 \cup Tag(\A s \in DOMAIN sys' : sys'[s] \notin Desc(t), "stopped_actor_left_in_system_registry")
       [] o.op = "stop" ->
            Tag(alive' = {} /\ fin' = {} /\ orphans' = <<>>, "stop_left_actor_running_or_unstopped")
            \cup Tag(pend' = {}, "stop_left_delayed_send")
            \cup Tag(kids'[Root] = {}, "stop_left_children_map")
            \cup Tag(\A s \in DOMAIN sys' : sys'[s] \in alive', "stopped_actor_left_in_system_registry")
       [] OTHER -> {}

OnA(p, v) == IF p \in PropSetA THEN v ELSE {}
AProj(al, fi, orph, kd, sy, rc, pn) ==
  [alive |-> al, fin |-> fi, orphans |-> orph, kids |-> [a \in DOMAIN kd |-> kd[a]], sys |-> sy, rec |-> rc,
   pend |-> LET RECURSIVE Q(_)
                Q(S) == IF S = {} THEN <<>> ELSE LET x == CHOOSE y \in S : \A z \in S : y.n <= z.n
                                                 IN <<<<x.sid, x.to, x.ev, x.due>>>> \o Q(S \ {x})
            IN Q(pn),
   \* registration numbers of the pending sends: not compared with the engine, but they keep states apart that
   \* differ in how many sends were registered before (a superseded send is being torn down inside the engine),
   \* so that the replay reaches each of them along its own history
   gen |-> {p.n : p \in pn}]
EmitA == PrintT(ToJson([from |-> AProj(alive, fin, orphans, kids, sys, rec, pend), step |-> lastOp',
                        to |-> AProj(alive', fin', orphans', kids', sys', rec', pend'), now |-> now',
                        prop |-> [C15 |-> OnA("C15", C15Step)]]))
=============================================================================
