------------------------------- MODULE SCCore -------------------------------
(***************************************************************************)
(* Implementation-shaped step semantics of xstate-statemachine.            *)
(*                                                                         *)
(* Mirrors, operator for operator:                                         *)
(*   base_interpreter.py   _matching_descriptors, _collect_eligible_…,     *)
(*                         _select_transitions, _is_guard_satisfied,       *)
(*                         _find_transition_domain, _compute_states_to_…,  *)
(*                         _record_history, _resolve_history_target,       *)
(*                         _is_state_done, _execute_transition,            *)
(*                         _enter_states / _exit_states (async copies)     *)
(*   sync_interpreter.py   start / send / _process_event_queue /           *)
(*                         _process_transient_transitions and the sync     *)
(*                         copies of enter / exit / check_and_fire_on_done *)
(*   interpreter.py        start / _run_event_loop / _settle_… / _deliver  *)
(*   helpers.py            the _Probe used by the pure API                 *)
(*                                                                         *)
(* A machine definition D is a record produced by harness/export.py from   *)
(* the MachineNode the library itself built (module Batch, generated).     *)
(* Everything here is a constant-level operator over a threaded record     *)
(* `st`; the modules that own variables (MCCore, TraceCore, ...) apply     *)
(* them.  `eng` is "sync", "async" or "pure": wherever the three engines   *)
(* differ the difference is written out, never idealised.                  *)
(***************************************************************************)
EXTENDS Naturals, Sequences, FiniteSets, TLC, Batch

VARIABLE mi                       \* which definition of the batch
D == Machines[mi]

NONE == "NONE"
NoErr == <<>>

--------------------------------------------------------------------------
(* Tree helpers (models.py, _get_ancestors, _is_descendant, _get_path_…)  *)

Parent(s) == D.parent[s]
Kind(s)   == D.kind[s]
Depth(s)  == D.depth[s]
Kids(s)   == D.children[s]
Rank(s)   == D.idRank[s]
SeqToSet(q) == {q[i] : i \in 1..Len(q)}

RECURSIVE AncSelf(_)
AncSelf(s) == IF s = D.root THEN {s} ELSE {s} \cup AncSelf(Parent(s))

\* _is_descendant is an id-prefix test (incl. self); the exporter evaluates
\* the same string test the code uses.
IsDesc(n, a) == n \in D.pdesc[a]

RECURSIVE PathTo(_, _)
\* _get_path_to_state(to, stop_at): outermost first, stop_at excluded
PathTo(s, stop) == IF s = stop THEN <<>>
                   ELSE IF s = D.root THEN <<s>>
                   ELSE Append(PathTo(Parent(s), stop), s)

RECURSIVE SortBy(_, _)
\* ascending by key function k (injective on S)
SortBy(S, k) == IF S = {} THEN <<>>
                ELSE LET m == CHOOSE x \in S : \A y \in S : k[x] <= k[y]
                     IN <<m>> \o SortBy(S \ {m}, k)

RevSeq(q) == [i \in 1..Len(q) |-> q[Len(q) + 1 - i]]

RECURSIVE FlatSeq(_)
FlatSeq(qq) == IF qq = <<>> THEN <<>> ELSE Head(qq) \o FlatSeq(Tail(qq))

IsLeaf(s) == Kind(s) \in {"atomic", "final"} \/ Kids(s) = <<>>

\* log entries all have the same shape so that TLC can compare them
L(k, a, b, c) == [k |-> k, a |-> a, b |-> b, c |-> c, d |-> {}]
L5(k, a, b, c, d) == [k |-> k, a |-> a, b |-> b, c |-> c, d |-> d]

--------------------------------------------------------------------------
(* Events                                                                  *)

Ev(type, kind, src) == [type |-> type, kind |-> kind, src |-> src]
PlainEv(type) == Ev(type, "ev", "")
EmptyEv == PlainEv("")
NoEv == Ev(NONE, "none", "")
InitEv == PlainEv("___xstate_statemachine_init___")

Segs(t) == IF t \in DOMAIN D.segs THEN D.segs[t] ELSE <<t>>
InternalPrefixes == {"done", "error", "after", "xstate"}
\* event_type.startswith(("done.", "error.", "after.", "xstate."))
IsInternalType(t) == LET sg == Segs(t) IN Len(sg) >= 2 /\ sg[1] \in InternalPrefixes
\* not event.type.startswith(("done.", "error.", "after."))
IsTransientCheck(t) == LET sg == Segs(t) IN ~(Len(sg) >= 2 /\ sg[1] \in {"done", "error", "after"})

IsPrefixSeq(p, q) == Len(p) <= Len(q) /\ \A i \in 1..Len(p) : p[i] = q[i]
IsSuffixSeq(p, q) == Len(p) <= Len(q) /\ \A i \in 1..Len(p) : p[i] = q[Len(q) - Len(p) + i]

--------------------------------------------------------------------------
(* Guards (_is_guard_satisfied, _is_state_in)                              *)
(*   g == [op, name, vk, kids, arg]; op \in none atom and or not stateIn   *)
(*   gv : guard name -> "T" | "F" | "R" (raises)                           *)
(*   result [v, log, err]                                                   *)

GR(v, log, err) == [v |-> v, log |-> log, err |-> err]

StateInHolds(arg, C) == \E s \in C : IsSuffixSeq(arg, D.idSegs[s])

RECURSIVE GEval(_, _, _), GAll(_, _, _, _), GAny(_, _, _, _)
GEval(g, C, gv) ==
  CASE g.op = "none" -> GR(TRUE, <<>>, NoErr)
    [] g.op = "and"  -> GAll(g.kids, 1, C, gv)
    [] g.op = "or"   -> GAny(g.kids, 1, C, gv)
    [] g.op = "not"  -> LET r == GEval(g.kids[1], C, gv) IN GR(~r.v, r.log, r.err)
    [] g.op = "stateIn" /\ "stateIn" \notin D.guardImpl ->
          \* built-in: answered from the configuration, no hook is called
          GR(IF g.arg = <<>> THEN FALSE ELSE StateInHolds(g.arg, C), <<>>, NoErr)
    [] OTHER ->
          IF g.name \notin D.guardImpl
          THEN GR(FALSE, <<>>, <<"ImplementationMissingError", "guard", g.name>>)
          \* g.vk is the key of the valuation: the guard name, or name:param for a
          \* parameterised guard whose implementation looks at its params
          ELSE LET val == IF g.vk \in DOMAIN gv THEN gv[g.vk] ELSE "F"
                   res == (val = "T")
               IN GR(res, <<L("guard", g.name, IF res THEN "T" ELSE "F", {})>>, NoErr)
GAll(kids, i, C, gv) ==
  IF i > Len(kids) THEN GR(TRUE, <<>>, NoErr)
  ELSE LET r == GEval(kids[i], C, gv)
       IN IF r.err # NoErr \/ ~r.v THEN r
          ELSE LET rest == GAll(kids, i + 1, C, gv)
               IN GR(rest.v, r.log \o rest.log, rest.err)
GAny(kids, i, C, gv) ==
  IF i > Len(kids) THEN GR(FALSE, <<>>, NoErr)
  ELSE LET r == GEval(kids[i], C, gv)
       IN IF r.err # NoErr \/ r.v THEN r
          ELSE LET rest == GAny(kids, i + 1, C, gv)
               IN GR(rest.v, r.log \o rest.log, rest.err)

--------------------------------------------------------------------------
(* Event descriptors (_matching_descriptors)                               *)
(*   D.tix[s].on == sequence of [key, tids] in dict order ("" excluded)    *)

KeySegs(k) == Segs(k)
IsPartialKey(k) == k # "*" /\ LET sg == KeySegs(k) IN Len(sg) >= 2 /\ sg[Len(sg)] = "*"
PartialMatches(k, t) ==
  LET sg == KeySegs(k) IN IsPrefixSeq(SubSeq(sg, 1, Len(sg) - 1), Segs(t))

\* indices into D.tix[s].on, most specific first
MatchingKeys(s, t) ==
  LET onl == D.tix[s].on
      idx == 1..Len(onl)
      exact == {i \in idx : onl[i].key = t}
      exactSeq == IF exact = {} THEN <<>> ELSE <<CHOOSE i \in exact : TRUE>>
  IN IF onl = <<>> \/ t = "" THEN <<>>
     ELSE IF IsInternalType(t) THEN exactSeq
     ELSE LET parts == {i \in idx : IsPartialKey(onl[i].key) /\ PartialMatches(onl[i].key, t)}
              \* partials.sort(key=len, reverse=True): all matching partial keys are
              \* prefixes of one another, so longer string == more segments
              partSeq == RevSeq(SortBy(parts, [i \in parts |-> Len(KeySegs(onl[i].key))]))
              wild == {i \in idx : onl[i].key = "*"}
              wildSeq == IF wild = {} THEN <<>> ELSE <<CHOOSE i \in wild : TRUE>>
          IN exactSeq \o partSeq \o wildSeq

--------------------------------------------------------------------------
(* Selection (_collect_eligible_transitions, _select_transitions)          *)
(*   acc == [el, ct, cf, log, err, last, blocked]                          *)

Acc0 == [el |-> <<>>, ct |-> {}, cf |-> {}, log |-> <<>>, err |-> NoErr,
         last |-> FALSE, blocked |-> FALSE]

Passes(acc, tid, C, gv) ==
  IF tid \in acc.ct THEN [acc EXCEPT !.last = TRUE]
  ELSE IF tid \in acc.cf THEN [acc EXCEPT !.last = FALSE]
  ELSE LET r == GEval(D.trans[tid].guard, C, gv)
       IN [acc EXCEPT !.last = r.v /\ r.err = NoErr,
                      !.log = @ \o r.log,
                      !.err = r.err,
                      !.ct = IF r.v /\ r.err = NoErr THEN @ \cup {tid} ELSE @,
                      !.cf = IF ~r.v /\ r.err = NoErr THEN @ \cup {tid} ELSE @]

RECURSIVE TryAll(_, _, _, _, _)
\* append every transition of `tids` whose guard passes
TryAll(acc, tids, i, C, gv) ==
  IF i > Len(tids) \/ acc.err # NoErr THEN acc
  ELSE LET a1 == Passes(acc, tids[i], C, gv)
       IN TryAll(IF a1.last THEN [a1 EXCEPT !.el = Append(@, tids[i])] ELSE a1,
                 tids, i + 1, C, gv)

RECURSIVE TryKey(_, _, _, _, _)
\* one `on` key: a forbidden transition blocks the whole upward search
TryKey(acc, tids, i, C, gv) ==
  IF i > Len(tids) \/ acc.err # NoErr THEN acc
  ELSE IF D.trans[tids[i]].forbidden THEN [acc EXCEPT !.blocked = TRUE]
  ELSE LET a1 == Passes(acc, tids[i], C, gv)
       IN TryKey(IF a1.last THEN [a1 EXCEPT !.el = Append(@, tids[i])] ELSE a1,
                 tids, i + 1, C, gv)

RECURSIVE TryKeys(_, _, _, _, _, _)
TryKeys(acc, s, keyIdx, i, C, gv) ==
  IF i > Len(keyIdx) \/ acc.err # NoErr \/ acc.blocked THEN acc
  ELSE TryKeys(TryKey(acc, D.tix[s].on[keyIdx[i]].tids, 1, C, gv), s, keyIdx, i + 1, C, gv)

InvTids(s, ev) ==
  FlatSeq([i \in 1..Len(D.tix[s].inv) |->
             IF D.tix[s].inv[i].id = ev.src THEN D.tix[s].inv[i].tids ELSE <<>>])

RECURSIVE Collect(_, _, _, _, _)
\* the upward walk from one active leaf
Collect(acc, s, ev, C, gv) ==
  LET a1 == IF ev.type # "" THEN TryKeys(acc, s, MatchingKeys(s, ev.type), 1, C, gv) ELSE acc
  IN IF a1.err # NoErr \/ a1.blocked THEN a1
     ELSE
     LET a2 == IF IsTransientCheck(ev.type) THEN TryAll(a1, D.tix[s].always, 1, C, gv) ELSE a1
         odn == SelectSeq(D.tix[s].onDone, LAMBDA t : D.trans[t].key = ev.type)
         a3 == TryAll(a2, odn, 1, C, gv)
         aft == IF ev.kind = "after"
                THEN SelectSeq(D.tix[s].after, LAMBDA t : D.trans[t].key = ev.type) ELSE <<>>
         a4 == TryAll(a3, aft, 1, C, gv)
         inv == IF ev.kind = "done"
                THEN SelectSeq(InvTids(s, ev), LAMBDA t : D.trans[t].key = ev.type) ELSE <<>>
         a5 == TryAll(a4, inv, 1, C, gv)
     IN IF a5.err # NoErr \/ s = D.root THEN a5 ELSE Collect(a5, Parent(s), ev, C, gv)

\* max(eligible, key=depth): the FIRST maximum
FirstMax(q) ==
  LET md == CHOOSE d \in {Depth(D.trans[q[i]].src) : i \in 1..Len(q)} :
               \A j \in 1..Len(q) : Depth(D.trans[q[j]].src) <= d
      idx == CHOOSE i \in 1..Len(q) :
               /\ Depth(D.trans[q[i]].src) = md
               /\ \A j \in 1..(i - 1) : Depth(D.trans[q[j]].src) # md
  IN q[idx]

RECURSIVE PerLeaf(_, _, _, _, _, _)
\* acc.el is reset per leaf; winners accumulate (identity de-dup) in `sel`
PerLeaf(acc, sel, leaves, i, ev, gvC) ==
  IF i > Len(leaves) \/ acc.err # NoErr THEN [acc |-> acc, sel |-> sel]
  ELSE LET a1 == Collect([acc EXCEPT !.el = <<>>, !.blocked = FALSE], leaves[i], ev, gvC.C, gvC.gv)
           w == IF a1.el = <<>> THEN 0 ELSE FirstMax(a1.el)
           sel1 == IF w = 0 \/ w \in SeqToSet(sel) THEN sel ELSE Append(sel, w)
       IN PerLeaf(a1, sel1, leaves, i + 1, ev, gvC)

\* stable sort, deepest source first (list.sort(key=-depth))
InsertByDepth(t, q) ==
  LET pos == CHOOSE i \in 1..(Len(q) + 1) :
               /\ \A j \in 1..(i - 1) : Depth(D.trans[q[j]].src) >= Depth(D.trans[t].src)
               /\ (i <= Len(q) => Depth(D.trans[q[i]].src) < Depth(D.trans[t].src))
  IN SubSeq(q, 1, pos - 1) \o <<t>> \o SubSeq(q, pos, Len(q))
RECURSIVE InsAll(_, _)
InsAll(q, acc) == IF q = <<>> THEN acc ELSE InsAll(Tail(q), InsertByDepth(Head(q), acc))

\* result: [sel (Seq of trans ids), log (guard log), err]
Select(C, ev, gv, who) ==
  LET leaves0 == {s \in C : IsLeaf(s)}
      leaves == IF leaves0 = {} THEN C ELSE leaves0
      ordered == SortBy(leaves, [s \in leaves |-> (100 - Depth(s)) * 10000 + Rank(s)])
      r == PerLeaf(Acc0, <<>>, ordered, 1, ev, [C |-> C, gv |-> gv])
      sel == IF r.acc.err # NoErr THEN <<>> ELSE InsAll(r.sel, <<>>)
  IN [sel |-> sel,
      \* the harness wraps _select_transitions: one entry per call that returned
      log |-> IF r.acc.err # NoErr THEN r.acc.log
              ELSE Append(r.acc.log, L5("select", ev.type, who, {D.trans[sel[i]].name : i \in 1..Len(sel)}, C)),
      err |-> r.acc.err]

--------------------------------------------------------------------------
(* Doneness (_is_state_done)                                               *)

RECURSIVE IsDone(_, _)
IsDone(C, s) ==
  IF Kind(s) = "final" THEN TRUE
  ELSE IF Kind(s) = "compound" THEN
     \* the code takes next() over a set: any active child (equal when legal);
     \* the spec resolves the choice by id rank so that it is a function
     LET act == {c \in C : c # D.root /\ Parent(c) = s}
     IN act # {} /\ IsDone(C, CHOOSE c \in act : \A d \in act : Rank(c) <= Rank(d))
  ELSE IF Kind(s) = "parallel" THEN
     \A i \in 1..Len(Kids(s)) :
        LET r == Kids(s)[i] IN
        Kind(r) = "history" \/
          LET a == {d \in C : IsDesc(d, r)} IN a # {} /\ \E d \in a : IsDone(C, d)
  ELSE FALSE

HasOnDone(s) == D.tix[s].onDone # <<>>

--------------------------------------------------------------------------
(* The threaded state                                                      *)
(*   st == [config, hist, status, ctx, queue, out, err, rd, output]        *)
(*   rd = async _raise_depth; output = "NONE" or the tag of the output     *)

Log(st, e) == [st EXCEPT !.out = Append(@, e)]
Failed(st) == st.err # NoErr

\* send(): sync refuses unless running; async refuses when stopped/done/error
Accepts(st, eng) == IF eng = "async" THEN st.status \notin {"stopped", "done", "error"}
                    ELSE st.status = "running"
\* every call of send() is visible in the log (the harness wraps send)
Enqueue(st, ev, eng) ==
  LET st1 == Log(st, L("enq", ev.type, "", {}))
  IN IF Accepts(st, eng) THEN [st1 EXCEPT !.queue = Append(@, ev)] ELSE st1

\* _complete(output)
Complete(st, outTag) ==
  IF st.status # "running" THEN st
  ELSE Log([st EXCEPT !.status = "done", !.output = outTag], L("done", outTag, "", {}))

--------------------------------------------------------------------------
(* Actions (_execute_actions and the built-ins modelled so far)            *)
(*   a == [kind, name, arg]                                                *)
(*     kind "user"   : marker implemented by the harness (logs name+event) *)
(*     kind "raise"  : xstate.raise, arg = event type                      *)
(*     kind "assign" : xstate.assign of constants, arg = <<key, value>>    *)
(*   proc: TRUE while the async loop is inside a macrostep (_processing)   *)

ExecOne(st, a, evt, eng, proc) ==
  LET st0 == IF eng = "pure" THEN Log(st, L("rec", a.name, "", {}))
             ELSE Log(st, L("ax", a.name, "", {}))
  IN IF eng = "pure" THEN
        \* the probe only records actions; assign and (undelayed) raise are part of the
        \* computed next state and are applied
        IF a.kind = "assign" THEN [st0 EXCEPT !.ctx = [@ EXCEPT ![a.arg[1]] = a.arg[2]]]
        ELSE IF a.kind = "raise" THEN Enqueue(st0, PlainEv(a.arg[1]), eng)
        ELSE st0
     ELSE CASE a.kind = "user" ->
                 IF a.name \notin D.actionImpl
                 THEN [st0 EXCEPT !.err = <<"ImplementationMissingError", "action", a.name>>]
                 ELSE IF a.name \in st.faults
                 \* a user action that raises is contained: on_action_error is notified and the
                 \* remainder of THIS action list is skipped (halt, consumed by ExecActs)
                 THEN [Log(st0, L("action_error", a.name, "", {})) EXCEPT !.halt = TRUE]
                 ELSE Log(st0, L("act", a.name, evt, {}))
            [] a.kind = "raise" ->
                 LET st1 == IF eng = "async" /\ proc THEN [st0 EXCEPT !.rd = @ + 1] ELSE st0
                 IN Enqueue(st1, PlainEv(a.arg[1]), eng)
            [] a.kind = "assign" ->
                 [st0 EXCEPT !.ctx = [@ EXCEPT ![a.arg[1]] = a.arg[2]]]
            \* a coroutine action that sleeps arg[1] virtual ms: the async consumer task is suspended
            \* inside this macrostep for that long (generators put it last in a targetless transition)
            [] a.kind = "slow" ->
                 [Log(st0, L("act", a.name, evt, {})) EXCEPT !.slow = a.arg[1]]
            [] OTHER -> st0

\* kind "choose": arg = sequence of branches [guard, acts]; the first branch whose guard passes
\* contributes its actions, which run (one nesting level deeper) before anything else
RECURSIVE ExecActs(_, _, _, _, _, _), ChooseBranch(_, _, _, _, _, _, _)
ChooseBranch(st, branches, i, evt, eng, proc, gv) ==
  IF i > Len(branches) THEN st
  ELSE LET r == GEval(branches[i].guard, st.config, gv)
           st1 == [st EXCEPT !.out = @ \o r.log, !.err = r.err]
       IN IF r.err # NoErr THEN st1
          ELSE IF r.v THEN ExecActs(st1, branches[i].acts, 1, evt, eng, proc)
          ELSE ChooseBranch(st1, branches, i + 1, evt, eng, proc, gv)
ExecActs(st, acts, i, evt, eng, proc) ==
  IF st.halt THEN [st EXCEPT !.halt = FALSE]          \* a contained failure ends this list only
  ELSE IF i > Len(acts) \/ Failed(st) THEN st
  ELSE LET a == acts[i] IN
       IF a.kind = "choose" /\ eng # "pure" THEN
          LET r == ChooseBranch(Log(st, L("ax", a.name, "", {})), a.arg, 1, evt, eng, proc, st.gv)
          IN IF Failed(r)
             \* anything a built-in raises (a missing guard of a branch, a missing nested action) is
             \* contained by the list that holds the built-in: the rest of THAT list is skipped;
             \* only the async engine reports it through on_action_error
             THEN LET r1 == [r EXCEPT !.err = NoErr]
                  IN IF eng = "async" THEN Log(r1, L("action_error", a.name, "", {})) ELSE r1
             ELSE ExecActs(r, acts, i + 1, evt, eng, proc)
       ELSE ExecActs(ExecOne(st, a, evt, eng, proc), acts, i + 1, evt, eng, proc)

--------------------------------------------------------------------------
(* Background tasks: only the bookkeeping visible in the log for now       *)
(* (_schedule_state_tasks, _cancel_state_tasks)                            *)

RECURSIVE ArmAll(_, _, _, _)
ArmAll(st, s, tids, i) ==
  IF i > Len(tids) THEN st
  ELSE ArmAll(Log(st, L("arm", s, D.trans[tids[i]].key, {})), s, tids, i + 1)

\* invoked services (async engine: one task per invocation, created at entry; the harness logs the
\* _invoke_service call).  A missing implementation aborts the entry.
\* Sync engine: a (plain callable) service is CALLED at the invocation; its outcome is sent at once - it is queued
\* behind the event being processed - and a failure nobody handles fails the interpreter (_fail).
SvcKindOf(src) == IF src \in DOMAIN D.serviceKind THEN D.serviceKind[src] ELSE "driver"
RECURSIVE InvokeAll(_, _, _, _, _)
InvokeAll(st, s, invs, i, eng) ==
  IF i > Len(invs) \/ Failed(st) THEN st
  ELSE IF invs[i].src \notin D.serviceImpl
       THEN [st EXCEPT !.err = <<"ImplementationMissingError", "service", invs[i].src>>]
       ELSE LET st1 == Log(st, L("invoke", s, invs[i].id, {}))
                kind == SvcKindOf(invs[i].src)
            IN IF eng = "sync" /\ kind \in {"ok", "fail"}
               THEN LET ok == kind = "ok"
                        ev == Ev(IF ok THEN D.doneInvokeEv[invs[i].id] ELSE D.errorInvokeEv[invs[i].id], "done", invs[i].id)
                        st2 == Log(Enqueue(st1, ev, "sync"), L(IF ok THEN "svc_done" ELSE "svc_error", invs[i].id, "", {}))
                        st3 == IF ok \/ invs[i].hasOnError \/ st2.status # "running" THEN st2
                               ELSE Log(Log([st2 EXCEPT !.status = "error"], L("error", "RuntimeError", "", {})),
                                        L("subscriber", "", "", st2.config))
                    IN InvokeAll(st3, s, invs, i + 1, eng)
               ELSE InvokeAll(st1, s, invs, i + 1, eng)

Schedule(st, s, eng) ==
  IF Failed(st) THEN st
  ELSE LET st1 == Log(st, L("sched", s, "", {}))
       IN IF eng = "pure" THEN st1
          ELSE InvokeAll(ArmAll(st1, s, D.tix[s].after, 1), s, D.invokes[s], 1, eng)
CancelTasks(st, s) == Log(st, L("cancel", s, "", {}))

RECURSIVE Rearm(_, _, _, _)
Rearm(st, list, i, eng) ==
  IF i > Len(list) THEN st
  ELSE LET s == list[i]
           st1 == Log(st, L("rearm", s, "", {}))
       IN Rearm(IF eng = "pure" THEN st1 ELSE ArmAll(st1, s, D.tix[s].after, 1), list, i + 1, eng)

--------------------------------------------------------------------------
(* Completion (_check_and_fire_on_done, both copies agree)                 *)

DoneEvOf(a) == Ev(D.doneEv[a], "done", a)

RECURSIVE CheckDoneUp(_, _, _, _)
CheckDoneUp(st, f, a, eng) ==
  IF a = NONE THEN
     IF Parent(f) = D.root
     THEN Complete(st, IF D.machineOutput # NONE THEN D.machineOutput ELSE D.output[f])
     ELSE st
  ELSE IF HasOnDone(a) /\ IsDone(st.config, a)
       THEN Enqueue(st, DoneEvOf(a), eng)
  ELSE CheckDoneUp(st, f, IF a = D.root THEN NONE ELSE Parent(a), eng)
CheckDone(st, f, eng) == CheckDoneUp(st, f, Parent(f), eng)

--------------------------------------------------------------------------
(* Entry (_enter_states): sync copy and async copy                          *)

EntryEvType(s, ev, eng) ==
  IF ev.kind # "none" THEN ev.type
  ELSE IF eng = "async" THEN InitEv.type ELSE D.entryEv[s]

RECURSIVE EnterL(_, _, _, _, _, _)
EnterL(st, list, ev, i, eng, proc) ==
  IF i > Len(list) \/ Failed(st) THEN st ELSE
  LET s == list[i]
      nonRoot == {list[k] : k \in {j \in 1..Len(list) : list[j] # D.root}}
      explPar == {Parent(x) : x \in nonRoot}
      evt == EntryEvType(s, ev, eng)
      \* both copies forward the event to default descent; the async copy first
      \* substitutes the init event for "no event", the sync copy synthesises
      \* entry.<id> per state instead
      down == IF eng = "async" THEN (IF ev.kind = "none" THEN InitEv ELSE ev) ELSE ev
      st1 == ExecActs([st EXCEPT !.config = @ \cup {s}], D.entry[s], 1, evt, eng, proc)
      st1a == IF eng = "async" THEN Schedule(st1, s, eng) ELSE st1
      st2 == IF Failed(st1a) THEN st1a
             ELSE IF Kind(s) = "final" THEN CheckDone(st1a, s, eng) ELSE st1a
      st3 == IF Failed(st2) THEN st2
             ELSE IF Kind(s) = "compound" /\ D.initial[s] \notin {NONE, "NOINIT"} THEN
                IF s \in explPar THEN st2
                ELSE IF D.initial[s] = "MISSING"
                     THEN [st2 EXCEPT !.err = <<"InvalidConfigError", "initial", s>>]
                     ELSE EnterL(st2, <<D.initial[s]>>, down, 1, eng, proc)
             ELSE IF Kind(s) = "compound" /\ Kids(s) # <<>>
                  THEN [st2 EXCEPT !.err = <<"InvalidConfigError", "noinitial", s>>]
             ELSE IF Kind(s) = "parallel" THEN
                LET regs == SelectSeq(Kids(s), LAMBDA c : Kind(c) # "history" /\ c \notin nonRoot)
                IN IF regs = <<>> THEN st2 ELSE EnterL(st2, regs, down, 1, eng, proc)
             ELSE st2
      st4 == IF eng = "async" \/ Failed(st3) THEN st3 ELSE Schedule(st3, s, eng)
  IN EnterL(st4, list, ev, i + 1, eng, proc)

--------------------------------------------------------------------------
(* History (_record_history, _resolve_history_target)                      *)

HistOwners == {s \in D.states : \E i \in 1..Len(Kids(s)) : Kind(Kids(s)[i]) = "history"}

RecordHistory(st, exiting) ==
  LET cands == UNION {AncSelf(x) : x \in exiting} \cap HistOwners
      newh == [p \in DOMAIN st.hist |->
                 IF p \in cands
                 THEN LET rem == {n \in st.config : n # p /\ IsDesc(n, p)}
                      IN IF rem = {} THEN st.hist[p] ELSE rem
                 ELSE st.hist[p]]
  IN [st EXCEPT !.hist = newh]

\* result is a SEQUENCE: the order in which the restored states are entered.
\* Remembered nodes are sorted by (depth, id); the never-visited fallbacks keep
\* document order.
ByDepthRank(S) == SortBy(S, [s \in S |-> Depth(s) * 10000 + Rank(s)])
ResolveHistory(st, h) ==
  LET p == Parent(h)
      rem == st.hist[p]
  IN IF rem = {} THEN
        IF D.hdefault[h] # NONE THEN
           IF Kind(p) = "parallel"
           THEN <<D.hdefault[h]>> \o SelectSeq(Kids(p), LAMBDA c : Kind(c) # "history" /\ ~IsDesc(D.hdefault[h], c))
           ELSE <<D.hdefault[h]>>
        ELSE IF D.initial[p] \notin {NONE, "NOINIT", "MISSING"} THEN <<D.initial[p]>>
        ELSE IF Kind(p) = "parallel" THEN SelectSeq(Kids(p), LAMBDA c : Kind(c) # "history")
        ELSE <<>>
     ELSE IF D.hkind[h] = "deep" THEN
        LET lv == {n \in rem : IsLeaf(n)} IN ByDepthRank(IF lv = {} THEN rem ELSE lv)
     ELSE LET sh == {n \in rem : Parent(n) = p} IN ByDepthRank(IF sh = {} THEN rem ELSE sh)

--------------------------------------------------------------------------
(* Exit (_exit_states): the sync copy cancels every state's tasks first    *)

RECURSIVE CancelL(_, _, _)
CancelL(st, list, i) == IF i > Len(list) THEN st ELSE CancelL(CancelTasks(st, list[i]), list, i + 1)

RECURSIVE ExitL(_, _, _, _, _, _)
ExitL(st, list, ev, i, eng, proc) ==
  IF i > Len(list) \/ Failed(st) THEN st ELSE
  LET s == list[i]
      st0 == IF eng = "async" THEN CancelTasks(st, s) ELSE st
      st1 == ExecActs(st0, D.exit[s], 1, ev.type, eng, proc)
  IN IF Failed(st1) THEN st1
     ELSE ExitL([st1 EXCEPT !.config = @ \ {s}], list, ev, i + 1, eng, proc)

ExitStates(st, list, ev, eng, proc) ==
  LET st1 == RecordHistory(st, SeqToSet(list))
      st2 == IF eng # "async" THEN CancelL(st1, list, 1) ELSE st1
  IN ExitL(st2, list, ev, 1, eng, proc)

--------------------------------------------------------------------------
(* Transition domain and exit set                                          *)

Domain(t, tgt) ==
  LET par == IF t.src = D.root THEN D.root ELSE Parent(t.src) IN
  IF tgt = t.src THEN par
  ELSE IF tgt \in AncSelf(t.src) THEN (IF tgt = D.root THEN D.root ELSE Parent(tgt))
  ELSE LET common == AncSelf(t.src) \cap AncSelf(tgt)
       IN IF common = {} THEN par
          ELSE CHOOSE d \in common : \A e \in common : Depth(e) <= Depth(d)

ExitSet(C, dom, tgt) ==
  LET cands == {s \in C : IsDesc(s, dom) /\ s # dom}
  IN IF Kind(dom) = "parallel" THEN
        \* a history child is not a region: no scoping when the branch is one
        LET chain == {b \in AncSelf(tgt) : b # D.root /\ Parent(b) = dom /\ Kind(b) # "history"}
        IN IF chain = {} THEN cands
           ELSE LET br == CHOOSE b \in chain : TRUE
                IN {s \in cands : s = br \/ IsDesc(s, br)}
     ELSE cands

RECURSIVE CombinedPath(_, _, _)
CombinedPath(targets, dom, acc) ==
  IF targets = <<>> THEN acc
  ELSE LET p == PathTo(Head(targets), dom)
           add == SelectSeq(p, LAMBDA x : x \notin SeqToSet(acc))
       IN CombinedPath(Tail(targets), dom, acc \o add)

--------------------------------------------------------------------------
(* One transition (_execute_transition / _execute_transition_sync +        *)
(* _process_single_transition)                                             *)

ObsTrans(st, kind, tname, before) == Log(st, L5("on_transition", kind, tname, st.config, before))
ObsSub(st) == Log(st, L("subscriber", "", "", st.config))

ExecTransition(st, tid, ev, eng, proc) ==
  LET t == D.trans[tid] IN
  IF t.tgt = NONE THEN
     LET s1 == ExecActs(st, t.acts, 1, ev.type, eng, proc)
     IN IF Failed(s1) THEN s1 ELSE ObsTrans(s1, "internal", t.name, s1.config)
  ELSE IF t.tgt = "UNRESOLVED" THEN
     [st EXCEPT !.err = <<"StateNotFoundError", "target", t.src>>]
  ELSE IF t.tgt = t.src /\ ~t.reenter THEN
     LET s1 == ExecActs(st, t.acts, 1, ev.type, eng, proc)
     IN IF Failed(s1) THEN s1 ELSE ObsTrans(s1, "internal", t.name, s1.config)
  ELSE
     LET tgt == t.tgt
         dom == Domain(t, tgt)
         exits == ExitSet(st.config, dom, tgt)
         exitSeq == RevSeq(SortBy(exits, [s \in exits |-> Depth(s) * 10000 + Rank(s)]))
         isH == Kind(tgt) = "history"
         htargets == IF isH THEN ResolveHistory(st, tgt) ELSE <<>>
         path == IF isH THEN <<>> ELSE PathTo(tgt, dom)
         st2 == ExitStates(st, exitSeq, ev, eng, proc)
         st3 == ExecActs(st2, t.acts, 1, ev.type, eng, proc)
         st4 == EnterL(st3, path, ev, 1, eng, proc)
         st5 == IF isH /\ ~Failed(st4) THEN
                   LET cp == CombinedPath(htargets, dom, <<>>)
                   IN IF cp = <<>> THEN st4 ELSE EnterL(st4, cp, ev, 1, eng, proc)
                ELSE st4
     IN IF Failed(st5) THEN
           \* rollback: configuration restored, tasks of exited states re-armed,
           \* everything else (history, context, log, queue) stays; the error
           \* keeps propagating.  The code walks a set here; the harness sorts
           \* the re-arm block by state id, the spec emits it in that order.
           Rearm([st5 EXCEPT !.config = st.config], SortBy(exits, [s \in exits |-> Rank(s)]), 1, eng)
        ELSE IF eng = "async" THEN ObsSub(ObsTrans(st5, "external", t.name, st.config))
        ELSE ObsTrans(ObsSub(st5), "external", t.name, st.config)

RECURSIVE ExecAll(_, _, _, _, _, _)
ExecAll(st, ts, ev, i, eng, proc) ==
  IF i > Len(ts) \/ Failed(st) THEN st
  ELSE IF Len(ts) > 1 /\ D.trans[ts[i]].src \notin st.config
       THEN ExecAll(st, ts, ev, i + 1, eng, proc)
  ELSE ExecAll(ExecTransition(st, ts[i], ev, eng, proc), ts, ev, i + 1, eng, proc)

\* _process_event
ProcessEvent(st, ev, gv, eng, proc) ==
  LET r == Select(st.config, ev, gv, "process")
      st1 == [st EXCEPT !.out = @ \o r.log, !.err = r.err]
  IN IF Failed(st1) THEN st1 ELSE ExecAll(st1, r.sel, ev, 1, eng, proc)

RECURSIVE Settle(_, _, _, _, _)
\* _process_transient_transitions / _settle_transient_transitions
Settle(st, gv, n, eng, proc) ==
  IF Failed(st) THEN st
  ELSE IF n > D.maxIter THEN Log(st, L("cut_always", "", "", {}))
  ELSE LET r == Select(st.config, EmptyEv, gv, "settle")
           st1 == [st EXCEPT !.out = @ \o r.log, !.err = r.err]
       IN IF Failed(st1) THEN st1
          ELSE IF r.sel # <<>> /\ \E i \in 1..Len(r.sel) : D.trans[r.sel[i]].key = ""
               THEN Settle(ProcessEvent(st1, EmptyEv, gv, eng, proc), gv, n + 1, eng, proc)
               ELSE st1

--------------------------------------------------------------------------
(* Sync engine: _process_event_queue                                        *)
(*   an exception leaves the rest of the queue in place and escapes send()  *)

RECURSIVE SyncDrain(_, _, _, _)
SyncDrain(st, gv, n, eng) ==
  IF Failed(st) \/ st.queue = <<>> THEN st
  \* completed / failed while draining: what is still queued is dropped
  ELSE IF st.status # "running" THEN [st EXCEPT !.queue = <<>>]
  ELSE IF n > D.maxIter
       THEN Log([st EXCEPT !.queue = <<>>], L("cut_drain", "", "", {}))
  ELSE LET ev == Head(st.queue)
           st1 == Log([st EXCEPT !.queue = Tail(@)], L("event", ev.type, "", {}))
           st2 == ProcessEvent(st1, ev, gv, eng, TRUE)
           st3 == Settle(st2, gv, 1, eng, TRUE)
       IN SyncDrain(st3, gv, n + 1, eng)

(* Async engine at quiescence granularity: _run_event_loop                  *)
(*   valid when no step suspends (no timers/services with live tasks, no     *)
(*   async actions); SCAsync refines this with suspension points             *)

\* `fuel` bounds the number of events one public step may dequeue: the harness
\* aborts a real run at the same count, and both sides then report "Diverged".
\* (A finite chain longer than D.fuel is reported the same way on both sides.)
\* AsyncLoopFrom(st, gv, fuel, blocked): `blocked` = the consumer task is already waiting inside
\* queue.get(); the event that wakes it is processed even if the status stopped being "running" in the
\* meantime (the while-condition is only evaluated at the top of the loop)
RECURSIVE AsyncLoopFrom(_, _, _, _)
AsyncLoop(st, gv, fuel) == AsyncLoopFrom(st, gv, fuel, FALSE)
AsyncLoopFrom(st, gv, fuel, blocked) ==
  IF (st.status # "running" /\ ~blocked) \/ st.queue = <<>> THEN st
  ELSE IF fuel = 0 THEN [st EXCEPT !.err = <<"Diverged">>]
  ELSE LET ev == Head(st.queue)
           st0 == [st EXCEPT !.queue = Tail(@)]
       IN IF st0.rd > D.maxIter
          \* (no fuel for a dropped event: the harness counts on_event_received calls only)
          THEN AsyncLoopFrom(Log([st0 EXCEPT !.rd = 0], L("cut_raise", "", "", {})), gv, fuel, FALSE)
          ELSE LET st1 == Log(st0, L("event", ev.type, "", {}))
                   before == st1.rd
                   st2 == ProcessEvent(st1, ev, gv, "async", TRUE)
                   st3 == Settle(st2, gv, 1, "async", TRUE)
                   \* an exception is logged and the loop carries on; the depth
                   \* reset is skipped on that path
                   st4 == IF Failed(st3)
                          THEN Log([st3 EXCEPT !.err = NoErr], L("loop_error", st3.err[1], "", {}))
                          ELSE IF st3.rd = before THEN [st3 EXCEPT !.rd = 0] ELSE st3
               IN IF st4.slow > 0 THEN st4 ELSE AsyncLoopFrom(st4, gv, fuel - 1, FALSE)

--------------------------------------------------------------------------
(* Public steps, as functions from a quiescent state                        *)

AllTrue == [g \in D.guards |-> "T"]

Fresh(hist0, ctx0) == [config |-> {}, hist |-> hist0, status |-> "uninitialized", ctx |-> ctx0,
                       queue |-> <<>>, out |-> <<>>, err |-> NoErr, rd |-> 0, output |-> NONE, gv |-> <<>>,
                       faults |-> {}, halt |-> FALSE, slow |-> 0]

StartStep(st0, gv, eng) ==
  LET st == [st0 EXCEPT !.gv = gv] IN
  IF eng = "async" THEN
     LET s0 == Log([st EXCEPT !.status = "running"], L("interp_start", "", "", {}))
         s1 == EnterL(s0, <<D.root>>, InitEv, 1, "async", FALSE)
         s2 == Settle(s1, gv, 1, "async", FALSE)
     IN IF Failed(s2)
        THEN [s2 EXCEPT !.status = "stopped"]   \* start() re-raises after marking stopped
        ELSE AsyncLoop(s2, gv, D.fuel)           \* the loop task then drains what entry raised
  ELSE
     LET s0 == Log([st EXCEPT !.status = "running"], L("interp_start", "", "", {}))
         s1 == EnterL(s0, <<D.root>>, NoEv, 1, eng, TRUE)
         s2 == SyncDrain(s1, gv, 1, eng)
         s3a == Settle(s2, gv, 1, eng, TRUE)
         s3 == SyncDrain(s3a, gv, 1, eng)       \* what the initial eventless transitions raised
     IN IF Failed(s3) THEN s3 ELSE Log(s3, L("on_transition", "start", "init", s3.config))

SendStep(st0, evtype, gv, eng) ==
  LET st == [st0 EXCEPT !.gv = gv] IN
  IF eng = "async" THEN
     AsyncLoop(Enqueue(st, PlainEv(evtype), "async"), gv, D.fuel)
  ELSE
     \* a refused send() returns before touching the queue
     IF st.status # "running" THEN Enqueue(st, PlainEv(evtype), eng)
     ELSE SyncDrain(Enqueue(st, PlainEv(evtype), eng), gv, 1, eng)

\* send_events([e1, e2]): every event is queued first, then the queue is drained
BatchStep(st0, evs, gv, eng) ==
  LET st == Log([st0 EXCEPT !.gv = gv], L("batch", evs[1], evs[Len(evs)], {}))   \* the harness marks the call
  IN IF eng = "async" THEN
        LET RECURSIVE PutAll(_, _)
            PutAll(s, i) == IF i > Len(evs) THEN s
                            ELSE PutAll([s EXCEPT !.queue = Append(@, PlainEv(evs[i]))], i + 1)
        IN IF ~Accepts(st, "async") THEN st ELSE AsyncLoop(PutAll(st, 1), gv, D.fuel)
     ELSE
        IF st.status # "running" THEN st
        ELSE SyncDrain([st EXCEPT !.queue = @ \o [i \in 1..Len(evs) |-> PlainEv(evs[i])]], gv, 1, eng)

\* stop(): no-op when uninitialized or stopped; otherwise status "stopped" and the stop hook
StopStep(st) ==
  IF st.status \in {"uninitialized", "stopped"} THEN st
  ELSE Log([st EXCEPT !.status = "stopped"], L("interp_stop", "", "", {}))

\* start() on an interpreter that is not fresh: refuses on a stopped one, otherwise does nothing
RestartStep(st) ==
  IF st.status = "stopped" THEN [st EXCEPT !.err = <<"InvalidConfigError", "restart", "">>] ELSE st

CanStep(st, evtype, gv) ==
  LET r == Select(st.config, PlainEv(evtype), gv, "can")
  IN [st EXCEPT !.out = @ \o r.log \o <<L("can", IF r.err = NoErr /\ r.sel # <<>> THEN "T" ELSE "F", "", {})>>]

=============================================================================
