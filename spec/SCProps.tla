------------------------------- MODULE SCProps -------------------------------
(***************************************************************************)
(* Prop layer: the listed properties as predicates over ONE observed       *)
(* public step  (pre, step, post, out)  of ONE definition D.               *)
(*                                                                         *)
(* These predicates never use the Impl step operators of SCCore (Select,   *)
(* EnterL, ExecTransition ...); they use only the definition, the tree     *)
(* helpers, the descriptor vocabulary and the plain boolean meaning of     *)
(* guards.  They are evaluated by TLC on the edges of the model (MCCore)   *)
(* and on every step recorded from the real engines (TraceCore).           *)
(*                                                                         *)
(* Log entries are [k, a, b, c, d] as documented in SCCore.                *)
(***************************************************************************)
EXTENDS SCCore

--------------------------------------------------------------------------
(* C01 -- legal configurations                                              *)

Legal(C) ==
  /\ D.root \in C
  /\ C \subseteq D.states
  /\ \A s \in C : s = D.root \/ Parent(s) \in C
  /\ \A s \in C : Kind(s) = "compound" /\ Kids(s) # <<>> =>
        Cardinality({c \in C : c # D.root /\ Parent(c) = s}) = 1
  /\ \A s \in C : Kind(s) = "parallel" =>
        \A i \in 1..Len(Kids(s)) : Kind(Kids(s)[i]) = "history" \/ Kids(s)[i] \in C
  /\ \A s \in C : Kind(s) # "history"
  /\ \A s \in C : Kind(s) \in {"atomic", "final"} => ~\E c \in C : c # D.root /\ Parent(c) = s

ObsKinds == {"on_transition", "subscriber", "snapshot"}

\* the step is a failed start(): the library did not agree to start the machine
FailedStart(step, post) == step.op = "start" /\ post.err # NoErr

Tag(b, t) == IF b THEN {} ELSE {t}

C01(pre, step, post, out) ==
  IF FailedStart(step, post) THEN {}
  ELSE Tag(post.status \in {"running", "done", "error"} => Legal(post.config), "final")
       \cup Tag(\A i \in 1..Len(out) : out[i].k \in ObsKinds => Legal(out[i].c), "observed")

--------------------------------------------------------------------------
(* plain boolean meaning of guards: raise counts as false                   *)

RECURSIVE GTrue(_, _, _)
GTrue(g, C, gv) ==
  CASE g.op = "none" -> TRUE
    [] g.op = "and"  -> \A i \in 1..Len(g.kids) : GTrue(g.kids[i], C, gv)
    [] g.op = "or"   -> \E i \in 1..Len(g.kids) : GTrue(g.kids[i], C, gv)
    [] g.op = "not"  -> ~GTrue(g.kids[1], C, gv)
    [] g.op = "stateIn" /\ "stateIn" \notin D.guardImpl ->
          g.arg # <<>> /\ \E s \in C : IsSuffixSeq(g.arg, D.idSegs[s])
    [] OTHER -> g.vk \in DOMAIN gv /\ gv[g.vk] = "T"

--------------------------------------------------------------------------
(* C02 -- selection                                                         *)

\* candidates of state s for event ev, in candidate order; `bar` says that a
\* forbidden (null) transition cut the list and stops the upward search
RECURSIVE OnCands(_, _, _)
OnCands(tids, i, acc) ==
  IF i > Len(tids) THEN [c |-> acc, bar |-> FALSE]
  ELSE IF D.trans[tids[i]].forbidden THEN [c |-> acc, bar |-> TRUE]
  ELSE OnCands(tids, i + 1, Append(acc, tids[i]))

RECURSIVE OnKeyCands(_, _, _, _)
OnKeyCands(s, keyIdx, i, acc) ==
  IF i > Len(keyIdx) THEN [c |-> acc, bar |-> FALSE]
  ELSE LET r == OnCands(D.tix[s].on[keyIdx[i]].tids, 1, acc)
       IN IF r.bar THEN r ELSE OnKeyCands(s, keyIdx, i + 1, r.c)

Cands(s, ev) ==
  LET onr == IF ev.type = "" THEN [c |-> <<>>, bar |-> FALSE]
             ELSE OnKeyCands(s, MatchingKeys(s, ev.type), 1, <<>>)
      rest == (IF IsTransientCheck(ev.type) THEN D.tix[s].always ELSE <<>>)
              \o SelectSeq(D.tix[s].onDone, LAMBDA t : D.trans[t].key = ev.type)
              \o (IF ev.kind = "after"
                  THEN SelectSeq(D.tix[s].after, LAMBDA t : D.trans[t].key = ev.type) ELSE <<>>)
              \o (IF ev.kind = "done"
                  THEN SelectSeq(InvTids(s, ev), LAMBDA t : D.trans[t].key = ev.type) ELSE <<>>)
  IN IF onr.bar THEN onr ELSE [c |-> onr.c \o rest, bar |-> FALSE]

RECURSIVE Nominee(_, _, _, _)
\* 0 when the chain from s upward nominates nothing
Nominee(s, ev, C, gv) ==
  LET r == Cands(s, ev)
      en == SelectSeq(r.c, LAMBDA t : GTrue(D.trans[t].guard, C, gv))
  IN IF en # <<>> THEN en[1]
     ELSE IF r.bar \/ s = D.root THEN 0
     ELSE Nominee(Parent(s), ev, C, gv)

Nominees(C, ev, gv) ==
  LET leaves0 == {s \in C : IsLeaf(s)}
      leaves == IF leaves0 = {} THEN C ELSE leaves0
  IN {Nominee(l, ev, C, gv) : l \in leaves} \ {0}

TName(t) == D.trans[t].name
EvOfSelect(e) ==   \* the event a select entry was made for, as far as the log tells
  IF e.a \in DOMAIN D.evKind THEN Ev(e.a, D.evKind[e.a].kind, D.evKind[e.a].src) ELSE PlainEv(e.a)

NextSelect(out, i) ==   \* index of the next select entry after i, or Len+1
  LET js == {j \in (i + 1)..Len(out) : out[j].k = "select"}
  IN IF js = {} THEN Len(out) + 1 ELSE CHOOSE j \in js : \A x \in js : j <= x

EffectKinds == {"on_transition", "subscriber", "act", "ax", "cancel", "sched", "arm", "enq",
                "done", "rec"}

C02Select(out, i, gv, failed) ==
  LET e == out[i]
      nom == Nominees(e.d, EvOfSelect(e), gv)
      nx == NextSelect(out, i)
      fired == [j \in {x \in (i + 1)..(nx - 1) : out[x].k = "on_transition" /\ out[x].a # "start"} |-> out[j].b]
      firedSet == {fired[j] : j \in DOMAIN fired}
      exited == {out[j].a : j \in {x \in (i + 1)..(nx - 1) : out[x].k = "cancel"}}
      aborted == failed \/ \E j \in (i + 1)..(nx - 1) : out[j].k = "loop_error"
  IN Tag(e.c = {TName(t) : t \in nom}, "nominees")          \* exactly the nominees are selected
     \cup Tag(e.b = "process" => firedSet \subseteq e.c, "only_selected_fire")
     \cup Tag(e.b = "process" => \A j, k \in DOMAIN fired : j # k => fired[j] # fired[k], "once")
     \* a winner whose source was exited by an earlier winner of the same step is skipped:
     \* whatever fires has its source in the configuration it fires from
     \cup Tag(e.b = "process" =>
                \A j \in DOMAIN fired : \A t \in nom : TName(t) = fired[j] => D.trans[t].src \in out[j].d,
            "stale_skipped")
     \cup Tag(e.b = "process" =>
                (aborted \/ \A t \in nom : TName(t) \in firedSet \/ D.trans[t].src \in exited), "all_fire")
     \cup Tag((e.b = "process" /\ e.c = {}) =>
                \A j \in (i + 1)..(nx - 1) : out[j].k \notin EffectKinds, "noop")
     \cup Tag(e.b = "can" => \A j \in (i + 1)..(nx - 1) : out[j].k \notin EffectKinds, "can_pure")

SameObservable(pre, post) ==
  /\ post.config = pre.config /\ post.hist = pre.hist /\ post.ctx = pre.ctx
  /\ post.status = pre.status

C02(pre, step, post, out) ==
  LET sels == {i \in 1..Len(out) : out[i].k = "select"}
      gv == step.gv
  IN UNION {C02Select(out, i, gv, post.err # NoErr) : i \in sels}
     \cup Tag((step.op \in {"send", "can"} /\ \A i \in sels : out[i].c = {}) => SameObservable(pre, post),
              "noop_state")
     \cup Tag(step.op = "can" =>
                /\ SameObservable(pre, post)
                /\ \A i \in 1..Len(out) : out[i].k = "can" =>
                      (out[i].a = "T") = (Nominees(pre.config, PlainEv(step.ev), gv) # {}), "can")

--------------------------------------------------------------------------
(* C03 -- order and accounting of one executed transition                   *)

ActSec(a) == IF a \in DOMAIN D.actInfo THEN D.actInfo[a].sec ELSE "other"
ActOwner(a) == D.actInfo[a].owner
ProperAnc(x, y) == x # y /\ x \in AncSelf(y)          \* x is a proper ancestor of y

LCA(a, b) == LET common == AncSelf(a) \cap AncSelf(b)
             IN CHOOSE d \in common : \A e \in common : Depth(e) <= Depth(d)
RECURSIVE DescSet(_)
DescSet(s) == {s} \cup UNION {DescSet(Kids(s)[i]) : i \in 1..Len(Kids(s))}

\* start index of the segment that ends with the on_transition entry at j
SegStart(out, j) ==
  LET bs == {i \in 1..(j - 1) : out[i].k \in {"on_transition", "select", "event"}}
  IN IF bs = {} THEN 1 ELSE (CHOOSE i \in bs : \A x \in bs : x <= i) + 1

RECURSIVE ReplayWitness(_, _, _, _)
\* replays exit (cancel) and entry (sched) witnesses over cur; result [ok, cur]
ReplayWitness(out, i, j, r) ==
  IF i >= j \/ ~r.ok THEN r
  ELSE LET e == out[i] IN
       IF e.k = "cancel" THEN ReplayWitness(out, i + 1, j, [ok |-> e.a \in r.cur, cur |-> r.cur \ {e.a}])
       ELSE IF e.k = "sched" THEN ReplayWitness(out, i + 1, j, [ok |-> e.a \notin r.cur, cur |-> r.cur \cup {e.a}])
       ELSE ReplayWitness(out, i + 1, j, r)

\* the event that caused the segment: the event of the last process-select before it
CauseOf(out, j) ==
  LET ss == {i \in 1..(j - 1) : out[i].k = "select" /\ out[i].b = "process"}
  IN IF ss = {} THEN NONE ELSE out[CHOOSE i \in ss : \A x \in ss : x <= i].a

C03Segment(out, j) ==
  LET lo == SegStart(out, j)
      idx == lo..(j - 1)
      t == CHOOSE x \in 1..Len(D.trans) : D.trans[x].name = out[j].b
      tr == D.trans[t]
      acts == {i \in idx : out[i].k = "act" /\ ActSec(out[i].a) \in {"exit", "trans", "entry"}}
      sec(i) == ActSec(out[i].a)
      secRank(i) == CASE sec(i) = "exit" -> 1 [] sec(i) = "trans" -> 2 [] OTHER -> 3
      cause == CauseOf(out, j)
      wit == {i \in idx : out[i].k \in {"cancel", "sched", "arm"}}
      rep == ReplayWitness(out, lo, j, [ok |-> TRUE, cur |-> out[j].d])
  IN IF out[j].a = "internal" THEN
        \* targetless / internal self transition: only its own actions, nothing entered or left
        Tag(wit = {}, "internal_frame")
        \cup Tag(\A i \in acts : sec(i) = "trans" /\ ActOwner(out[i].a) = tr.name, "internal_acts")
        \cup Tag(\A i \in acts : cause = NONE \/ out[i].b = cause, "event")
        \cup Tag(out[j].c = out[j].d, "internal_config")
     ELSE
        Tag(\A i1, i2 \in acts : i1 < i2 => secRank(i1) <= secRank(i2), "exit_trans_entry")      \* (a)
        \cup Tag(\A i1, i2 \in acts : i1 < i2 /\ sec(i1) = "exit" /\ sec(i2) = "exit" =>
              ~ProperAnc(ActOwner(out[i1].a), ActOwner(out[i2].a)), "exit_order")               \* (b)
        \cup Tag(\A i1, i2 \in acts : i1 < i2 /\ sec(i1) = "entry" /\ sec(i2) = "entry" =>
              ~ProperAnc(ActOwner(out[i2].a), ActOwner(out[i1].a)), "entry_order")              \* (b)
        \cup Tag(\A i \in acts : cause = NONE \/ out[i].b = cause, "event")                        \* (c)
        \cup Tag(\A i \in acts : sec(i) = "trans" => ActOwner(out[i].a) = tr.name, "foreign_acts")
        \cup Tag(rep.ok /\ rep.cur = out[j].c, "accounting")                                     \* (d)
        \cup Tag(\A i \in acts : sec(i) = "exit" =>
              Cardinality({x \in idx : out[x].k = "cancel" /\ out[x].a = ActOwner(out[i].a)}) =
              Cardinality({x \in acts : out[x].a = out[i].a}), "exit_count")
        \cup Tag(\A i \in acts : sec(i) = "entry" =>
              Cardinality({x \in idx : out[x].k = "sched" /\ out[x].a = ActOwner(out[i].a)}) =
              Cardinality({x \in acts : out[x].a = out[i].a}), "entry_count")
        \cup Tag(tr.tgt \in D.states =>                                                          \* (e)
              \A i \in wit : out[i].a \in DescSet(LCA(tr.src, tr.tgt)), "frame")

C03(pre, step, post, out) ==
  UNION {C03Segment(out, j) : j \in {x \in 1..Len(out) :
            /\ out[x].k = "on_transition" /\ out[x].a \in {"external", "internal"}
            /\ \E y \in 1..Len(D.trans) : D.trans[y].name = out[x].b}}

--------------------------------------------------------------------------
(* configuration along the log of one step, from the entry/exit witnesses   *)

ApplyWitness(C, e) == IF e.k = "sched" THEN C \cup {e.a}
                      ELSE IF e.k = "cancel" THEN C \ {e.a} ELSE C
RECURSIVE CfgSeq(_, _, _, _)
\* CfgSeq[i] = configuration after out[1..i]
CfgSeq(out, i, cur, acc) ==
  IF i > Len(out) THEN acc
  ELSE LET nxt == ApplyWitness(cur, out[i]) IN CfgSeq(out, i + 1, nxt, Append(acc, nxt))

Aborted(post, out) == post.err # NoErr \/ \E i \in 1..Len(out) : out[i].k \in {"rearm", "loop_error"}

--------------------------------------------------------------------------
(* C10 -- completion                                                         *)

\* literal reading: the active child IS a final state / every region is in a final state
RECURSIVE InFinalLit(_, _)
InFinalLit(s, C) ==
  IF Kind(s) = "compound" THEN \E c \in C : c # D.root /\ Parent(c) = s /\ Kind(c) = "final"
  ELSE IF Kind(s) = "parallel" THEN
     \A i \in 1..Len(Kids(s)) : LET r == Kids(s)[i] IN
        Kind(r) = "history" \/ (Kind(r) = "final" /\ r \in C) \/ (Kind(r) \in {"compound", "parallel"} /\ InFinalLit(r, C))
  ELSE FALSE

Rising(P(_), cfgs, pre) ==   \* number of indices at which P becomes true
  Cardinality({i \in 1..Len(cfgs) : P(cfgs[i]) /\ ~P(IF i = 1 THEN pre ELSE cfgs[i - 1])})

RootFinals(C) == {f \in C : f # D.root /\ Parent(f) = D.root /\ Kind(f) = "final"}
ExpectedOutput(C) ==
  IF D.machineOutput # NONE THEN D.machineOutput
  ELSE IF RootFinals(C) = {} THEN NONE ELSE D.output[CHOOSE f \in RootFinals(C) : TRUE]

OnDoneOwner(tname) ==   \* the state whose onDone transition is called tname, or NONE
  LET S == {s \in D.states : \E i \in 1..Len(D.tix[s].onDone) : D.trans[D.tix[s].onDone[i]].name = tname}
  IN IF S = {} THEN NONE ELSE CHOOSE s \in S : TRUE

C10(pre, step, post, out, eng) ==
  LET cfgs == CfgSeq(out, 1, pre.config, <<>>)
      dones == {i \in 1..Len(out) : out[i].k = "done"}
      owners == {s \in D.states : HasOnDone(s)}
      logged == eng # "pure"
  IN \* ---- the machine itself
     Tag((RootFinals(post.config) # {} /\ ~HasOnDone(D.root) /\ post.err = NoErr /\ Legal(post.config)
            /\ step.op \in {"start", "send"} /\ eng # "pure")
           => post.status \in {"done", "stopped"}, "root_final_not_done")
     \cup Tag(Cardinality(dones) <= 1, "done_twice")
     \cup Tag(dones # {} => (pre.status \in {"running", "uninitialized"} /\ post.status = "done"), "done_status")
     \cup Tag((post.status = "done" /\ pre.status # "done" /\ eng # "pure" /\ RootFinals(post.config) # {})
                => post.output = ExpectedOutput(post.config), "output")
     \* once done, the machine stays in its top-level final state
     \cup Tag((post.status = "done" /\ eng # "pure" /\ post.err = NoErr
                 /\ (pre.status # "done" \/ RootFinals(pre.config) # {})) => RootFinals(post.config) # {},
              "left_final_state_after_done")
     \cup Tag((pre.status = "done" /\ eng # "pure") =>
                (SameObservable(pre, post) /\ post.output = pre.output
                 /\ \A i \in 1..Len(out) : out[i].k \notin (EffectKinds \ {"enq"})), "ignored_after_done")
     \* events dequeued after the machine completed run no user code (the rest of the
     \* macrostep that completed it may)
     \cup Tag(logged => \A i \in dones : \A j \in (i + 1)..Len(out) : out[j].k = "event" =>
                  \A x \in (j + 1)..Len(out) : out[x].k # "act", "code_after_done")
     \* ---- onDone of compound / parallel states
     \cup Tag(logged => \A j \in 1..Len(out) :
                (out[j].k = "on_transition" /\ OnDoneOwner(out[j].b) # NONE
                   /\ Kind(OnDoneOwner(out[j].b)) = "parallel")
                   => IsDone(out[j].d, OnDoneOwner(out[j].b)), "taken_while_region_not_final")
     \cup (IF ~logged \/ Aborted(post, out) THEN {}
         ELSE UNION {
            LET enq == Cardinality({i \in 1..Len(out) : out[i].k = "enq" /\ out[i].a = D.doneEv[s]})
                lit == Rising(LAMBDA C : s \in C /\ InFinalLit(s, C), cfgs, pre.config)
                rec == Rising(LAMBDA C : s \in C /\ IsDone(C, s), cfgs, pre.config)
            IN Tag(post.status # "running" \/ lit <= enq, "completion_without_done_event")
               \cup Tag(enq <= rec, "done_event_without_completion")
            : s \in owners \ {D.root} })

--------------------------------------------------------------------------
(* C11 -- history                                                            *)

RECURSIVE DefClosure(_)
DefClosure(s) ==
  {s} \cup (IF Kind(s) = "compound" /\ D.initial[s] \in D.states THEN DefClosure(D.initial[s])
           ELSE IF Kind(s) = "parallel"
                THEN UNION {DefClosure(Kids(s)[i]) : i \in {x \in 1..Len(Kids(s)) : Kind(Kids(s)[x]) # "history"}}
                ELSE {})

\* states activated inside p when p is entered towards the explicit target t (a descendant of p)
RECURSIVE EnterTowards(_, _)
EnterTowards(t, p) ==
  IF t = p THEN {}
  ELSE LET q == Parent(t)
           others == IF Kind(q) = "parallel"
                     THEN UNION {DefClosure(Kids(q)[i]) : i \in {x \in 1..Len(Kids(q)) :
                                    Kind(Kids(q)[x]) # "history" /\ Kids(q)[x] # t}}
                     ELSE {}
       IN {t} \cup others \cup EnterTowards(q, p)

C11Entry(pre, out, j) ==
  LET t == CHOOSE x \in 1..Len(D.trans) : D.trans[x].name = out[j].b
      h == D.trans[t].tgt
      p == Parent(h)
      lo == SegStart(out, j)
      exitedEarlier == \E i \in 1..(lo - 1) : out[i].k = "cancel" /\ out[i].a = p
      ghost == IF p \in DOMAIN pre.hist THEN pre.hist[p] ELSE {}
      inside == {n \in out[j].c : n # p /\ n \in DescSet(p)}
      leaves(S) == {n \in S : IsLeaf(n)}
      once == \A i1, i2 \in lo..(j - 1) :
                 (out[i1].k = "sched" /\ out[i2].k = "sched" /\ out[i1].a = out[i2].a) => i1 = i2
  IN IF p \in out[j].d \/ exitedEarlier THEN {}          \* parent still active: unspecified
     ELSE Tag(once, "entered_once") \cup
     IF ghost = {} THEN
        IF D.hdefault[h] # NONE
        THEN Tag(inside = EnterTowards(D.hdefault[h], p) \cup DefClosure(D.hdefault[h]), "default_target")
        ELSE Tag(inside = DefClosure(p) \ {p}, "default_entry")
     ELSE IF D.hkind[h] = "deep" THEN Tag(leaves(inside) = leaves(ghost), "deep")
     ELSE Tag(inside = UNION {DefClosure(c) : c \in {x \in ghost : Parent(x) = p}}, "shallow")

C11(pre, step, post, out, eng) ==
  IF eng = "pure" \/ Aborted(post, out) THEN {}
  ELSE UNION {C11Entry(pre, out, j) : j \in {x \in 1..Len(out) :
                /\ out[x].k = "on_transition" /\ out[x].a = "external"
                /\ \E y \in 1..Len(D.trans) : D.trans[y].name = out[x].b /\ D.trans[y].tgt \in D.states
                                                  /\ Kind(D.trans[y].tgt) = "history"}}

--------------------------------------------------------------------------
(* C20 -- event descriptors, written independently of SCCore!MatchingKeys    *)

\* specificity of key k for event type t: 0 exact, 1..99 partial (longer prefix = smaller),
\* 1000 wildcard, 9999 no match.  Synthetic (done./error./after./xstate.) types match exactly only.
Specificity(k, t) ==
  LET ks == Segs(k)
      ts == Segs(t)
      synthetic == Len(ts) >= 2 /\ ts[1] \in {"done", "error", "after", "xstate"}
  IN IF k = t THEN 0
     ELSE IF synthetic THEN 9999
     ELSE IF k = "*" THEN 1000
     ELSE IF Len(ks) >= 2 /\ ks[Len(ks)] = "*" /\ Len(ks) - 1 <= Len(ts)
             /\ \A i \in 1..(Len(ks) - 1) : ks[i] = ts[i]
          THEN 100 - (Len(ks) - 1)
     ELSE 9999

C20Keys(s, t) ==
  LET onl == D.tix[s].on
      m == {i \in 1..Len(onl) : Specificity(onl[i].key, t) < 9999}
  IN IF t = "" THEN <<>> ELSE SortBy(m, [i \in m |-> Specificity(onl[i].key, t) * 1000 + i])

RECURSIVE OnKeyCands20(_, _, _, _)
OnKeyCands20(s, keyIdx, i, acc) ==
  IF i > Len(keyIdx) THEN [c |-> acc, bar |-> FALSE]
  ELSE LET r == OnCands(D.tix[s].on[keyIdx[i]].tids, 1, acc)
       IN IF r.bar THEN r ELSE OnKeyCands20(s, keyIdx, i + 1, r.c)

Cands20(s, ev) ==
  LET onr == IF ev.type = "" THEN [c |-> <<>>, bar |-> FALSE]
             ELSE OnKeyCands20(s, C20Keys(s, ev.type), 1, <<>>)
      rest == (IF IsTransientCheck(ev.type) THEN D.tix[s].always ELSE <<>>)
              \o SelectSeq(D.tix[s].onDone, LAMBDA t : D.trans[t].key = ev.type)
  IN IF onr.bar THEN onr ELSE [c |-> onr.c \o rest, bar |-> FALSE]

RECURSIVE Nominee20(_, _, _, _)
Nominee20(s, ev, C, gv) ==
  LET r == Cands20(s, ev)
      en == SelectSeq(r.c, LAMBDA t : GTrue(D.trans[t].guard, C, gv))
  IN IF en # <<>> THEN en[1]
     ELSE IF r.bar \/ s = D.root THEN 0          \* a null transition consumes the event here
     ELSE Nominee20(Parent(s), ev, C, gv)

C20(pre, step, post, out) ==
  UNION { LET e == out[i]
              C == e.d
              leaves0 == {s \in C : IsLeaf(s)}
              leaves == IF leaves0 = {} THEN C ELSE leaves0
              nom == {Nominee20(l, EvOfSelect(e), C, step.gv) : l \in leaves} \ {0}
          IN Tag(e.c = {TName(t) : t \in nom}, "descriptor_order")
        : i \in {x \in 1..Len(out) : out[x].k = "select" /\ out[x].b \in {"process", "can"}
                                      /\ EvOfSelect(out[x]).kind = "ev"} }

--------------------------------------------------------------------------
(* C06 -- guards gate transitions exactly                                    *)

RECURSIVE MissingAtoms(_)
MissingAtoms(g) ==
  CASE g.op \in {"and", "or", "not"} -> UNION {MissingAtoms(g.kids[i]) : i \in 1..Len(g.kids)}
    [] g.op = "atom" -> IF g.name \in D.guardImpl THEN {} ELSE {g.name}
    [] OTHER -> {}

\* the first candidate of the deepest level that has candidates, for the chain starting at s
RECURSIVE FirstCand(_, _)
FirstCand(s, ev) ==
  LET r == Cands(s, ev)
  IN IF r.c # <<>> THEN r.c[1]
     ELSE IF r.bar \/ s = D.root THEN 0 ELSE FirstCand(Parent(s), ev)

MustReportMissing(C, ev) ==
  \E l \in {s \in C : IsLeaf(s)} :
     LET t == FirstCand(l, ev)
     IN t # 0 /\ D.trans[t].guard.op = "atom" /\ D.trans[t].guard.name \notin D.guardImpl

ReportedMissing(post, out) ==
  \/ (post.err # NoErr /\ post.err[1] = "ImplementationMissingError")
  \/ \E i \in 1..Len(out) : out[i].k = "loop_error" /\ out[i].a = "ImplementationMissingError"

C06(pre, step, post, out) ==
  LET sels == {i \in 1..Len(out) : out[i].k = "select"}
      gv == step.gv
  IN \* taken only if true when selected (boolean meaning, raise = false), first true candidate wins
     UNION {Tag(out[i].c = {TName(t) : t \in Nominees(out[i].d, EvOfSelect(out[i]), gv)}, "guard_decides") : i \in sels}
     \* the guard the library attached to every transition is the one its config denotes
     \* (guard or cond key, every operand spelling): a guarded transition is never silently unguarded
     \cup Tag(\A t \in 1..Len(D.trans) : D.trans[t].guard = D.trans[t].wantGuard, "guard_as_declared")
     \* a raising guard disturbs nothing: the step completes without an error
     \cup Tag((\A g \in DOMAIN gv : gv[g] # "R") \/ post.err = NoErr
              \/ post.err[1] = "ImplementationMissingError", "raise_is_false")
     \* a named but unimplemented guard is reported, never decided
     \cup Tag((step.op = "send" /\ pre.status = "running" /\ MustReportMissing(pre.config, PlainEv(step.ev)))
               => ReportedMissing(post, out), "missing_reported")
     \cup Tag(ReportedMissing(post, out) /\ step.op = "send" =>
               (post.config = pre.config \/ \E i \in 1..Len(out) : out[i].k = "on_transition"), "missing_leaves_state")
     \* the result logged for an evaluated guard is its valuation (hook sees true only for "T")
     \cup Tag(\A i \in 1..Len(out) : out[i].k = "guard" =>
                 \E g \in DOMAIN gv : (out[i].b = "T") = (gv[g] = "T") , "hook_result")

--------------------------------------------------------------------------
(* C13 -- every macrostep terminates; the bound cuts runaway chains only      *)

CutKinds == {"cut_drain", "cut_raise", "cut_always", "cut_actions"}
CountK(out, k) == Cardinality({i \in 1..Len(out) : out[i].k = k})

C13(pre, step, post, out) ==
  LET cuts == {i \in 1..Len(out) : out[i].k \in CutKinds}
      nEvents == CountK(out, "event")
      nRounds == Cardinality({i \in 1..Len(out) : out[i].k = "select" /\ out[i].b = "settle" /\ out[i].c # {}})
      sent == IF step.op = "batch" THEN step.evs ELSE IF step.op = "send" THEN <<step.ev>> ELSE <<>>
      sentSet == {sent[i] : i \in 1..Len(sent)}
      processedSent == Cardinality({i \in 1..Len(out) : out[i].k = "event" /\ out[i].a \in sentSet})
  IN Tag(post.err = NoErr \/ post.err[1] # "Diverged", "terminates")
     \cup Tag(cuts # {} => (post.status \in {"running", "done"} /\ Legal(post.config)), "cut_leaves_legal")
     \* a chain shorter than the bound runs to its natural end
     \* a chain is never cut before it reached the configured length
     \cup Tag((\E i \in cuts : out[i].k \in {"cut_drain", "cut_raise"}) => nEvents >= D.maxIter, "cut_too_early")
     \cup Tag((\E i \in cuts : out[i].k = "cut_always") => nRounds >= D.maxIter, "cut_too_early_always")
     \* the bound never discards events sent from outside
     \cup Tag((pre.status = "running" /\ post.status = "running" /\ post.err = NoErr
               /\ \A i \in 1..Len(out) : out[i].k # "loop_error")
                 => processedSent >= Len(sent), "external_event_discarded")

--------------------------------------------------------------------------
(* C07 -- failure containment: a faulty run of a step against its fault-free twin   *)
(*   faults: user (marker) actions that raise when called                           *)

ListOf(a) == IF a \in DOMAIN D.actInfo THEN <<D.actInfo[a].sec, D.actInfo[a].owner>> ELSE <<"other", a>>
ActPairs(out, drop) ==
  LET q == SelectSeq(out, LAMBDA e : e.k = "act" /\ ListOf(e.a) \notin drop)
  IN [i \in 1..Len(q) |-> <<q[i].a, q[i].b>>]
CfgTrail(out) ==
  LET q == SelectSeq(out, LAMBDA e : e.k = "on_transition") IN [i \in 1..Len(q) |-> q[i].c]

\* the static action list that contains marker f, and whether everything after f in it is a plain
\* user action (skipping a raise/assign/choose legitimately changes what happens later)
ListSeqOf(f) ==
  LET info == D.actInfo[f]
  IN IF info.sec = "entry" THEN D.entry[info.owner]
     ELSE IF info.sec = "exit" THEN D.exit[info.owner]
     ELSE D.trans[CHOOSE t \in 1..Len(D.trans) : D.trans[t].name = info.owner].acts
RemainderPlain(f) ==
  f \in DOMAIN D.actInfo /\
  LET q == ListSeqOf(f)
      pos == {i \in 1..Len(q) : q[i].name = f}
  IN pos # {} /\ \A i \in 1..Len(q) : (\E p \in pos : i > p) => q[i].kind = "user"

C07Pair(cleanPost, cleanOut, faultyPost, faultyOut, faults) ==
  IF ~\A f \in faults : RemainderPlain(f) THEN {} ELSE
  LET faulted == {ListOf(f) : f \in faults}
      reached == {f \in faults : \E i \in 1..Len(cleanOut) : cleanOut[i].k = "act" /\ cleanOut[i].a = f}
      nErr == Cardinality({i \in 1..Len(faultyOut) : faultyOut[i].k = "action_error"})
  IN Tag(ActPairs(cleanOut, faulted) = ActPairs(faultyOut, faulted), "other_actions_same")
     \cup Tag(CfgTrail(cleanOut) = CfgTrail(faultyOut), "configurations_same")
     \cup Tag(cleanPost.config = faultyPost.config /\ cleanPost.status = faultyPost.status
              /\ cleanPost.hist = faultyPost.hist /\ cleanPost.err = faultyPost.err, "state_same")
     \cup Tag(\A f \in faults : ~\E i \in 1..Len(faultyOut) : faultyOut[i].k = "act" /\ faultyOut[i].a = f,
              "faulting_action_logged")
     \* the remainder of the faulted list is skipped: the action that follows a failure report never
     \* belongs to the failed action's list (unless it is that list's first action, i.e. a new run of it)
     \cup Tag(\A i \in 1..Len(faultyOut) : faultyOut[i].k = "action_error" /\ faultyOut[i].a \in DOMAIN D.actInfo =>
                LET nx == {j \in (i + 1)..Len(faultyOut) : faultyOut[j].k = "act"}
                IN nx = {} \/ LET j == CHOOSE x \in nx : \A y \in nx : x <= y
                               IN ListOf(faultyOut[j].a) # ListOf(faultyOut[i].a)
                                  \/ ListSeqOf(faultyOut[i].a)[1].name = faultyOut[j].a,
              "remainder_skipped")
     \cup Tag((reached # {}) => nErr >= 1, "on_action_error_notified")
     \cup Tag((reached = {}) => nErr = 0, "spurious_action_error")

\* aborted transition: configuration as before it, exited states re-armed
C07Abort(pre, step, post, out) ==
  LET ots == {i \in 1..Len(out) : out[i].k = "on_transition"}
      lastOt == IF ots = {} THEN 0 ELSE CHOOSE i \in ots : \A x \in ots : x <= i
      before == IF lastOt = 0 THEN pre.config ELSE out[lastOt].c
      rearms == {out[i].a : i \in {x \in 1..Len(out) : out[x].k = "rearm"}}
      exitedAfter == {out[i].a : i \in {x \in (lastOt + 1)..Len(out) : out[x].k = "cancel"}}
      syncAbort == post.err # NoErr /\ post.err[1] \notin {"Diverged"} /\ step.op \in {"send", "batch"}
  IN Tag(syncAbort => post.config = before, "rolled_back")
     \cup Tag(syncAbort => rearms = exitedAfter, "rearmed")
     \cup Tag(syncAbort => post.status = "running", "still_running")

--------------------------------------------------------------------------
(* C14 -- lifecycle                                                           *)

AllowedStatus == {<<"uninitialized", "running">>, <<"running", "done">>, <<"running", "error">>,
                  <<"running", "stopped">>, <<"done", "stopped">>, <<"error", "stopped">>,
                  <<"uninitialized", "done">>, <<"uninitialized", "error">>}   \* start() may complete/fail the machine at once

C14(pre, step, post, out) ==
  LET quiet == \A i \in 1..Len(out) : out[i].k \notin {"act", "ax", "on_transition", "event", "subscriber", "sched", "arm", "invoke"}
  IN Tag(pre.status = post.status \/ <<pre.status, post.status>> \in AllowedStatus
         \/ (step.op = "start" /\ post.err # NoErr), "status_transition")
     \* send() on a done / failed / stopped interpreter changes nothing and runs nothing
     \cup Tag((step.op \in {"send", "batch"} /\ pre.status \in {"done", "error", "stopped"}) =>
                (SameObservable(pre, post) /\ post.output = pre.output /\ quiet), "send_after_end")
     \* start() while running / done / failed is a no-op; on a stopped interpreter it refuses with a library error
     \cup Tag((step.op = "start" /\ pre.status \in {"running", "done", "error"}) =>
                (SameObservable(pre, post) /\ quiet /\ post.err = NoErr), "start_idempotent")
     \cup Tag((step.op = "start" /\ pre.status = "stopped") =>
                (SameObservable(pre, post) /\ quiet /\ post.err # NoErr /\ post.err[1] = "InvalidConfigError"),
              "restart_refused")
     \* stop(): from any status, idempotent
     \cup Tag(step.op = "stop" => (post.status = IF pre.status = "uninitialized" THEN "uninitialized" ELSE "stopped")
                                 /\ post.config = pre.config /\ post.err = NoErr, "stop")
     \cup Tag((step.op = "stop" /\ pre.status \in {"stopped", "uninitialized"}) => out = <<>>, "stop_idempotent")

--------------------------------------------------------------------------
(* C04 -- run-to-completion, lossless and ordered processing, on one step's log          *)
(*   preq: types queued before the step, postq: types still queued after it              *)

TypesOf(out, k) == LET q == SelectSeq(out, LAMBDA e : e.k = k) IN [i \in 1..Len(q) |-> q[i].a]
IsPrefixS(p, q) == Len(p) <= Len(q) /\ \A i \in 1..Len(p) : p[i] = q[i]

C04Log(out, preq, postq, acceptedFirst, dropsAllowed) ==
  LET enq == TypesOf(out, "enq")                     \* every send() call of the step, in call order
      ev == TypesOf(out, "event")                    \* every dequeue, in order
      offered == preq \o acceptedFirst \o enq
      evIdx == {i \in 1..Len(out) : out[i].k = "event"}
      \* a macrostep is open from its "event" entry to the settle pass that finds nothing more to do
      closedBefore(i) == \E j \in 1..(i - 1) :
                            /\ \/ (out[j].k = "select" /\ out[j].b = "settle" /\ out[j].c = {})
                               \/ out[j].k \in CutKinds \cup {"loop_error"}     \* the bound or an error ended it
                            /\ ~\E x \in (j + 1)..(i - 1) : out[x].k \in {"act", "on_transition", "cancel", "sched"}
      prevEv(i) == {j \in evIdx : j < i}
  IN \* processed in acceptance order, nothing duplicated or invented
     Tag(dropsAllowed \/ IsPrefixS(ev, offered), "processed_out_of_order_or_twice")
     \* nothing lost: what was offered is processed or still queued
     \cup Tag(dropsAllowed \/ ev \o postq = offered, "accepted_event_lost")
     \* one macrostep at a time: the next dequeue happens only after the previous event settled
     \cup Tag(\A i \in evIdx : prevEv(i) = {} \/ closedBefore(i), "macrosteps_interleaved")
     \* nothing is processed inside a transition (between its exit and its completion hook)
     \cup Tag(\A i \in evIdx : ~\E j \in 1..(i - 1) :
                  /\ out[j].k = "select" /\ out[j].b = "process" /\ out[j].c # {}
                  /\ ~\E x \in (j + 1)..(i - 1) : out[x].k \in {"on_transition", "rearm", "loop_error"}
                  /\ \E x \in (j + 1)..(i - 1) : out[x].k \in {"cancel", "act"}, "event_processed_inside_a_transition")

\* on a core edge: quiescent before and after, one public call
C04(pre, step, post, out) ==
  LET drops == \/ post.status # "running" \/ pre.status # "running" \/ post.err # NoErr
               \/ \E i \in 1..Len(out) : out[i].k \in CutKinds \cup {"loop_error"}
      first == IF step.op = "batch" THEN step.evs ELSE <<>>       \* send_events() does not go through send()
  IN IF step.op \notin {"start", "send", "batch"} THEN {}
     ELSE C04Log(out, <<>>, <<>>, first, drops)

=============================================================================
