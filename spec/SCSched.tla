------------------------------- MODULE SCSched -------------------------------
(***************************************************************************)
(* Scheduling layer of the ASYNC engine: virtual time, `after` timers,     *)
(* slow (suspending) actions, stop() - on top of the core step semantics.  *)
(*                                                                         *)
(* Granularity = what a deterministic driver can do to a real Interpreter  *)
(* under a virtual-time event loop (harness/vloop.py): one DRIVER STEP,    *)
(* after which every task runs until it blocks on time or on the queue:    *)
(*   DStart        start()                                                  *)
(*   DSend(e)      send(e) at the current instant                           *)
(*   DWait(dt)     let virtual time pass without reaching a deadline        *)
(*   DAdvance      jump to the next deadline; the handles due at that       *)
(*                 instant run in (when, creation) order, as asyncio does   *)
(*   DStop         stop()                                                   *)
(* Mirrors interpreter.py _after_timer/_after_timer_task, TaskManager       *)
(* cancel_by_owner/cancel_all, _run_event_loop (consumer busy inside a     *)
(* coroutine action), stop().  An expiry is an AfterEvent that carries     *)
(* only its TYPE; `ep` on queued events and timers is a GHOST used by the  *)
(* Prop layer only.                                                        *)
(***************************************************************************)
EXTENDS SCProps, Json

CONSTANTS EngineS,       \* "async": the asyncio Interpreter (consumer task, call_at handles);
                         \* "sync": SyncInterpreter, whose `after` timers are threads that call send() at expiry
          MaxNow,        \* horizon of virtual time (ms)
          WaitSteps,     \* set of dt for DWait
          MaxDepth,      \* bound on the number of driver steps
          PropSetS       \* props evaluated per edge

VARIABLES status, config, hist, ctx, output,      \* core state (quiescent between driver steps)
          queue,         \* events still queued (only non-empty while the consumer is busy / stopped)
          now,           \* virtual ms
          timers,        \* set of [owner, key, due, seq, ep]
          svcs,          \* set of [owner, inv, seq]: invoked services whose task is alive (driver-controlled futures)
          busy,          \* 0 or the instant at which the slow action ends
          busySeq,       \* creation order of the slow action's sleep handle
          seq,           \* creation counter of call_at handles
          deferred,      \* log entries of the suspended macrostep that happen when the slow action ends
          susp,          \* <<>> or <<C>>: C is the configuration the suspended macrostep ends in (while it is
                         \* suspended `config` is the intermediate one: the states whose exit has completed are gone)
          ghost,         \* [entered: state -> time of last entry, ep: state -> activation count, fired: set of <<state, key, ep>>]
          out, lastStep
svars == <<mi, status, config, hist, ctx, output, queue, now, timers, svcs, busy, busySeq, seq, deferred, susp, ghost, out, lastStep>>

SPack == [config |-> config, hist |-> hist, status |-> status, ctx |-> ctx, queue |-> queue,
          out |-> <<>>, err |-> NoErr, rd |-> 0, output |-> output, gv |-> <<>>, faults |-> {}, halt |-> FALSE, slow |-> 0]

DelayOf(key) == D.delayMs[key]
InvOwner(inv) == CHOOSE s \in D.states : \E i \in 1..Len(D.invokes[s]) : D.invokes[s][i].id = inv
InvRec(inv) == LET s == InvOwner(inv) IN D.invokes[s][CHOOSE i \in 1..Len(D.invokes[s]) : D.invokes[s][i].id = inv]

\* fold the step's log into the timer table and the ghost: arm adds, cancel removes the owner's timers
RECURSIVE Book(_, _, _)
Book(o, i, b) ==
  IF i > Len(o) THEN b
  ELSE LET e == o[i] IN
       IF e.k = "sched" THEN
          Book(o, i + 1, [b EXCEPT !.g.entered[e.a] = b.t, !.g.ep[e.a] = @ + 1])
       ELSE IF e.k \in {"arm"} THEN
          Book(o, i + 1, [b EXCEPT !.timers = @ \cup {[owner |-> e.a, key |-> e.b, due |-> b.t + DelayOf(e.b),
                                                       seq |-> b.seq, ep |-> b.g.ep[e.a]]},
                                   !.seq = @ + 1])
       ELSE IF e.k = "invoke" THEN
          Book(o, i + 1, [b EXCEPT !.svcs = @ \cup {[owner |-> e.a, inv |-> e.b, seq |-> b.seq]}, !.seq = @ + 1])
       ELSE IF e.k \in {"svc_done", "svc_error"} THEN
          \* the completion was just sent: remember which activation of the owner produced it (ghost)
          Book(o, i + 1, [b EXCEPT !.svcs = {v \in @ : v.inv # e.a},
                                   !.g.doneEp = [x \in DOMAIN @ \cup {e.a} |-> IF x = e.a THEN b.g.ep[InvOwner(e.a)] ELSE @[x]]])
       ELSE IF e.k = "cancel" THEN
          Book(o, i + 1, [b EXCEPT !.timers = {t \in @ : t.owner # e.a}, !.svcs = {v \in @ : v.owner # e.a}])
       ELSE IF e.k = "timer_fired" THEN
          Book(o, i + 1, [b EXCEPT !.timers = {t \in @ : ToString(t.seq) \notin e.c}])
       ELSE Book(o, i + 1, b)

\* run the consumer until it blocks (queue empty, suspended in a slow action, or loop ended)
RunToIdle(st) == IF busy > 0 THEN st ELSE AsyncLoop(st, st.gv, D.fuel)

SlowNames == UNION {{D.trans[t].acts[i].name : i \in {x \in 1..Len(D.trans[t].acts) : D.trans[t].acts[x].kind = "slow"}}
                    : t \in 1..Len(D.trans)}
             \cup UNION {{D.exit[s][i].name : i \in {x \in 1..Len(D.exit[s]) : D.exit[s][x].kind = "slow"}} : s \in D.states}
\* the state whose EXIT action list contains the slow action `name` (NONE: a transition action)
SlowExitOwner(name) == IF \E s \in D.states : \E i \in 1..Len(D.exit[s]) : D.exit[s][i].name = name
                       THEN CHOOSE s \in D.states : \E i \in 1..Len(D.exit[s]) : D.exit[s][i].name = name ELSE NONE
\* The configuration while a macrostep is suspended in the slow action that ends `prefix`.  _exit_states handles
\* one state at a time: cancel its tasks, run its exit actions, remove it; transition actions run when every
\* state of the exit set is gone; nothing has been entered yet (slow ENTRY actions are not modelled).
MidConfig(base, prefix) ==
  LET ots == {i \in 1..Len(prefix) : prefix[i].k = "on_transition"}
      last == IF ots = {} THEN 0 ELSE CHOOSE i \in ots : \A x \in ots : x <= i
      start == IF last = 0 THEN base ELSE prefix[last].c
      gone == {prefix[i].a : i \in {x \in (last + 1)..Len(prefix) : prefix[x].k = "cancel"}}
  IN start \ (gone \ {SlowExitOwner(prefix[Len(prefix)].a)})
\* index of the slow action's own log entry in a step that got suspended (0: none)
SlowCut(o) == LET I == {i \in 1..Len(o) : o[i].k = "act" /\ o[i].a \in SlowNames}
              IN IF I = {} THEN 0 ELSE CHOOSE i \in I : \A x \in I : x <= i

\* Services that are PLAIN callables (harness kinds "ok" / "fail"): the task created at the invocation runs as soon
\* as the consumer really suspends - when it blocks on the empty queue or in a slow action, i.e. at the end of the
\* driver step - and the callable has returned / raised at once: its outcome is sent then and there.
SvcKind(inv) == LET src == InvRec(inv).src IN IF src \in DOMAIN D.serviceKind THEN D.serviceKind[src] ELSE "driver"
RECURSIVE Inst(_, _, _)
Inst(st, bz, n) ==
  LET o == st.out
      pend == {i \in 1..Len(o) :
                 /\ o[i].k = "invoke" /\ SvcKind(o[i].b) \in {"ok", "fail"}
                 /\ ~\E j \in (i + 1)..Len(o) : \/ (o[j].k \in {"svc_done", "svc_error"} /\ o[j].a = o[i].b)
                                                  \/ (o[j].k = "cancel" /\ o[j].a = o[i].a)}
  IN IF n = 0 \/ pend = {} \/ st.status \in {"stopped"} THEN st
     ELSE LET i == CHOOSE x \in pend : \A y \in pend : x <= y
              inv == o[i].b
              ok == SvcKind(inv) = "ok"
              ev == [type |-> IF ok THEN D.doneInvokeEv[inv] ELSE D.errorInvokeEv[inv], kind |-> "done", src |-> inv]
              st0 == Log(Enqueue(st, ev, "async"), L(IF ok THEN "svc_done" ELSE "svc_error", inv, "", {}))
              st1 == IF ok \/ InvRec(inv).hasOnError \/ st0.status \notin {"running", "uninitialized"} THEN st0
                     ELSE Log(Log([st0 EXCEPT !.status = "error"], L("error", "RuntimeError", "", {})),
                              L("subscriber", "", "", st0.config))
              suspended == st.slow > 0 \/ bz > 0
          IN Inst(IF suspended THEN st1 ELSE AsyncLoopFrom(st1, st.gv, D.fuel, TRUE), bz, n - 1)

Commit(stRaw, step, t, tm, bz, bzs, sq) ==
  LET st == IF step.op = "stop" \/ EngineS = "sync" THEN stRaw ELSE Inst(stRaw, bz, 6)
      slowNow == st.slow > 0
      cut == IF slowNow THEN SlowCut(st.out) ELSE 0
      \* what the suspended macrostep does after the slow action (later exits, entries, arming) happens - and is
      \* booked - when it resumes
      nowOut == IF cut > 0 THEN SubSeq(st.out, 1, cut) ELSE st.out
      b == Book(nowOut, 1, [timers |-> tm, svcs |-> IF step.op = "stop" THEN {} ELSE svcs, seq |-> sq, g |-> ghost, t |-> t])
  IN /\ config' = (IF cut > 0 THEN MidConfig(config, nowOut) ELSE st.config)
     /\ susp' = (IF cut > 0 THEN <<st.config>> ELSE IF bz = 0 THEN <<>> ELSE susp)
     /\ hist' = st.hist /\ status' = st.status /\ ctx' = st.ctx /\ output' = st.output
     /\ queue' = st.queue
     /\ now' = t
     /\ timers' = b.timers
     /\ svcs' = b.svcs
     /\ busy' = IF slowNow THEN t + st.slow ELSE bz
     /\ busySeq' = IF slowNow THEN b.seq ELSE bzs
     /\ seq' = IF slowNow THEN b.seq + 1 ELSE b.seq
     /\ ghost' = b.g
     \* what follows the slow action inside its macrostep (hook notifications) happens at its end
     /\ out' = IF cut > 0 THEN SubSeq(st.out, 1, cut) ELSE st.out
     /\ deferred' = IF cut > 0 THEN SubSeq(st.out, cut + 1, Len(st.out)) ELSE IF bz = 0 THEN <<>> ELSE deferred
     /\ lastStep' = step
     /\ UNCHANGED mi

Z0(S) == [s \in S |-> 0]
Init == /\ mi \in 1..Len(Machines)
        /\ status = "uninitialized" /\ config = {} /\ hist = [p \in {s \in Machines[mi].states :
              \E i \in 1..Len(Machines[mi].children[s]) : Machines[mi].kind[Machines[mi].children[s][i]] = "history"} |-> {}]
        /\ ctx = Machines[mi].ctx0 /\ output = NONE /\ queue = <<>>
        /\ now = 0 /\ timers = {} /\ svcs = {} /\ busy = 0 /\ busySeq = 0 /\ seq = 1 /\ deferred = <<>> /\ susp = <<>>
        /\ ghost = [entered |-> Z0(Machines[mi].states), ep |-> Z0(Machines[mi].states), doneEp |-> <<>>]
        /\ out = <<>> /\ lastStep = [op |-> "init", ev |-> "", gv |-> <<>>, dt |-> 0]

GVs == [D.guards -> {"T", "F"}]

DStart == /\ status = "uninitialized"
          /\ \E gv \in GVs :
               Commit(StartStep(SPack, gv, EngineS), [op |-> "start", ev |-> "", gv |-> gv, dt |-> 0], now, timers, 0, 0, seq)

DSend == /\ status # "uninitialized"
         /\ \E ev \in D.events : \E gv \in GVs :
              LET st0 == Enqueue([SPack EXCEPT !.gv = gv], PlainEv(ev), "async")
              IN Commit(IF EngineS = "sync" THEN SendStep(SPack, ev, gv, "sync") ELSE RunToIdle(st0),
                        [op |-> "send", ev |-> ev, gv |-> gv, dt |-> 0], now, timers, busy, busySeq, seq)

NextDeadline == LET ds == {t.due : t \in timers} \cup (IF busy > 0 THEN {busy} ELSE {})
                IN IF ds = {} THEN MaxNow + 1 ELSE CHOOSE d \in ds : \A x \in ds : d <= x

DWait == /\ status # "uninitialized"
         /\ \E dt \in WaitSteps : /\ now + dt < NextDeadline /\ now + dt <= MaxNow
                                  /\ Commit(SPack, [op |-> "wait", ev |-> "", gv |-> <<>>, dt |-> dt], now + dt, timers, busy, busySeq, seq)

\* the handles due at instant t, in creation order; a timer's handle wakes its task, which sends the
\* AfterEvent (dropped when the interpreter is stopped/done/error); the slow action's handle resumes the consumer
CancelledInStep(st, owner) == \E i \in 1..Len(st.out) : st.out[i].k = "cancel" /\ st.out[i].a = owner

RECURSIVE FireDue(_, _, _, _)
FireDue(st, due, bz, gv) ==
  \* due: sequence of handles [kind, seq, timer]; returns [st, busy]
  IF due = <<>> THEN [st |-> st, busy |-> bz]
  ELSE LET h == Head(due) IN
       IF h.kind = "timer" THEN
          \* the owner was exited by a handle that ran earlier at this instant: the task was cancelled
          IF CancelledInStep(st, h.timer.owner) THEN FireDue(st, Tail(due), bz, gv)
          ELSE LET ev == [type |-> h.timer.key, kind |-> "after", src |-> ""]
                   st1 == Enqueue(Log(st, L("timer_fired", h.timer.owner, h.timer.key, {ToString(h.timer.seq)})), ev, "async")
               IN FireDue(st1, Tail(due), bz, gv)
       ELSE \* the slow action ends: the consumer resumes and runs until it blocks again
          FireDue(AsyncLoop([Log(st, L("slow_end", "", "", {})) EXCEPT !.out = @ \o deferred,
                                                                       !.config = IF susp = <<>> THEN @ ELSE susp[1]],
                            gv, D.fuel), Tail(due), 0, gv)

\* Sync engine: each timer is a thread blocked in Event.wait(delay); at expiry (in deadline, then creation
\* order) the thread itself checks that the interpreter is running and the owner still active and then calls
\* send(), which runs the whole macrostep inline before the next thread wakes.
RECURSIVE FireDueSync(_, _, _)
FireDueSync(st, due, gv) ==
  IF due = <<>> THEN st
  ELSE LET h == Head(due) IN
       IF CancelledInStep(st, h.timer.owner) \/ st.status # "running" \/ h.timer.owner \notin st.config
       THEN FireDueSync(st, Tail(due), gv)
       ELSE LET ev == [type |-> h.timer.key, kind |-> "after", src |-> ""]
                st1 == Log(st, L("timer_fired", h.timer.owner, h.timer.key, {ToString(h.timer.seq)}))
            IN FireDueSync(SyncDrain(Enqueue(st1, ev, "sync"), gv, 1, "sync"), Tail(due), gv)

DAdvanceSync ==
  /\ EngineS = "sync" /\ status # "uninitialized" /\ NextDeadline <= MaxNow
  /\ \E gv \in GVs :
       LET t == NextDeadline
           hs == {[kind |-> "timer", seq |-> x.seq, timer |-> x] : x \in {y \in timers : y.due = t}}
           due == SortBy(hs, [h \in hs |-> h.seq])
           \* an expired timer's thread is gone whether or not it sent anything
           tm == {x \in timers : x.due # t}
       IN Commit(FireDueSync([SPack EXCEPT !.gv = gv], due, gv), [op |-> "advance", ev |-> "", gv |-> gv, dt |-> t - now], t, tm, 0, 0, seq)

DAdvance ==
  /\ EngineS = "async"
  /\ status # "uninitialized" /\ NextDeadline <= MaxNow
  /\ \E gv \in GVs :
       LET t == NextDeadline
           hs == {[kind |-> "timer", seq |-> x.seq, timer |-> x] : x \in {y \in timers : y.due = t}}
                 \cup (IF busy = t THEN {[kind |-> "slow", seq |-> busySeq, timer |-> [owner |-> "", key |-> "", due |-> 0, seq |-> 0, ep |-> 0]]} ELSE {})
           due == SortBy(hs, [h \in hs |-> h.seq])
           r == FireDue([SPack EXCEPT !.gv = gv], due, busy, gv)
           \* consumer idle (not busy): whatever the timers queued is processed now
           st2 == IF r.busy > 0 \/ r.st.slow > 0 THEN r.st ELSE AsyncLoop(r.st, gv, D.fuel)
       IN Commit(st2, [op |-> "advance", ev |-> "", gv |-> gv, dt |-> t - now], t, timers, r.busy, busySeq, seq)

\* a driver-controlled service returns / raises: its task sends the completion event (dropped when the
\* interpreter is stopped/done/error), the plugin hook runs, and an error nobody declared a handler for
\* puts the interpreter into the error status before the consumer gets to run
DResolve ==
  /\ EngineS = "async"
  /\ status # "uninitialized"
  /\ \E v \in {x \in svcs : SvcKind(x.inv) = "driver"} : \E gv \in GVs :
       LET ev == [type |-> D.doneInvokeEv[v.inv], kind |-> "done", src |-> v.inv]
           st0 == Log(Enqueue([SPack EXCEPT !.gv = gv], ev, "async"), L("svc_done", v.inv, "", {}))
       IN Commit(RunToIdle(st0), [op |-> "resolve", ev |-> v.inv, gv |-> gv, dt |-> 0], now, timers, busy, busySeq, seq)
DReject ==
  /\ EngineS = "async"
  /\ status # "uninitialized"
  /\ \E v \in {x \in svcs : SvcKind(x.inv) = "driver"} : \E gv \in GVs :
       LET ev == [type |-> D.errorInvokeEv[v.inv], kind |-> "done", src |-> v.inv]
           st0 == Log(Enqueue([SPack EXCEPT !.gv = gv], ev, "async"), L("svc_error", v.inv, "", {}))
           st1 == IF InvRec(v.inv).hasOnError \/ st0.status \notin {"running", "uninitialized"} THEN st0
                  ELSE Log(Log([st0 EXCEPT !.status = "error"], L("error", "RuntimeError", "", {})),
                           L("subscriber", "", "", st0.config))
           \* the consumer was blocked in queue.get() (idle, empty queue): it processes the event that
           \* woke it although the status is no longer "running"
           wasBlocked == busy = 0 /\ queue = <<>>
       IN Commit(IF busy > 0 THEN st1 ELSE AsyncLoopFrom(st1, gv, D.fuel, wasBlocked),
                 [op |-> "reject", ev |-> v.inv, gv |-> gv, dt |-> 0], now, timers, busy, busySeq, seq)

DStop == /\ status \notin {"uninitialized", "stopped"}
         /\ Commit(Log([SPack EXCEPT !.status = "stopped"], L("interp_stop", "", "", {})),
                   [op |-> "stop", ev |-> "", gv |-> <<>>, dt |-> 0], now, {}, 0, 0, seq)

Next == DStart \/ DSend \/ DWait \/ DAdvance \/ DAdvanceSync \/ DStop \/ DResolve \/ DReject
Spec == Init /\ [][Next]_svars
TimerView == {<<t.owner, t.key, t.due, Cardinality({u \in timers : u.seq < t.seq})>> : t \in timers}
SvcView == {<<v.owner, v.inv, Cardinality({u \in svcs : u.seq < v.seq})>> : v \in svcs}
View == <<mi, status, config, hist, ctx, output, queue, now, TimerView, SvcView, busy, susp, ghost.entered>>
Horizon == now <= MaxNow /\ Len(queue) <= 3 /\ TLCGet("level") <= MaxDepth

--------------------------------------------------------------------------
(* Prop C08 on one driver step: replay the log at instant now'              *)
(*   after transition t of state s with delay d may fire only if s has been *)
(*   continuously active for d since its most recent entry, once per        *)
(*   activation; leaving or stopping prevents it; when due and idle it      *)
(*   fires at the deadline                                                  *)

AfterTrans == {t \in 1..Len(D.trans) : D.trans[t].bucket = "after"}
TransByName(n) == CHOOSE t \in 1..Len(D.trans) : D.trans[t].name = n

RECURSIVE C08Walk(_, _, _, _, _)
\* g: [entered, fired] ; returns set of failing tags
C08Walk(o, i, t, g, acc) ==
  IF i > Len(o) THEN acc
  ELSE LET e == o[i] IN
       IF e.k = "sched" THEN
          C08Walk(o, i + 1, t, [g EXCEPT !.entered[e.a] = t, !.fired = {x \in @ : x[1] # e.a}], acc)
       ELSE IF e.k = "event" THEN
          \* the entry times as they are when this event starts being processed: a transition that
          \* re-enters its own source must be judged against the activation it left
          C08Walk(o, i + 1, t, [g EXCEPT !.sel = g.entered], acc)
       ELSE IF e.k = "on_transition" /\ e.a = "external" /\ \E x \in AfterTrans : D.trans[x].name = e.b THEN
          LET tr == D.trans[TransByName(e.b)]
              s == tr.src
              d == DelayOf(tr.key)
              early == t < g.sel[s] + d
              twice == <<s, tr.key>> \in g.fired
          IN C08Walk(o, i + 1, t, [g EXCEPT !.fired = @ \cup {<<s, tr.key>>}],
                     acc \cup (IF early THEN {"fired_before_delay_elapsed_since_last_entry"} ELSE {})
                         \cup (IF twice THEN {"fired_twice_in_one_activation"} ELSE {}))
       ELSE C08Walk(o, i + 1, t, g, acc)

\* fires when due and idle: a lone due timer of an active owner with a true first candidate
DueAndIdle(step) ==
  step.op = "advance" /\ busy = 0 /\ queue = <<>> /\ status = "running"
  /\ Cardinality({t \in timers : t.due = NextDeadline}) = 1

C08Step ==
  LET firedState == [entered |-> ghost.entered, sel |-> ghost.entered, fired |-> {}]
      walk == C08Walk(out', 1, now', firedState, {})
      afterStop == IF status = "stopped" THEN
                      Tag(\A i \in 1..Len(out') : out'[i].k \notin {"on_transition", "act", "event"}, "activity_after_stop")
                   ELSE {}
      due == IF DueAndIdle(lastStep') THEN
               LET tm == CHOOSE t \in timers : t.due = NextDeadline
                   cands == SelectSeq(D.tix[tm.owner].after, LAMBDA x : D.trans[x].key = tm.key)
                   en == SelectSeq(cands, LAMBDA x : GTrue(D.trans[x].guard, config, lastStep'.gv))
               \* (a transition that is suspended in a slow exit / transition action has fired: it completes at resume)
               IN Tag((tm.owner \in config /\ en # <<>>) =>
                        \/ \E i \in 1..Len(out') : out'[i].k = "on_transition" /\ out'[i].b = D.trans[en[1]].name
                        \/ \E i \in 1..Len(deferred') : deferred'[i].k = "on_transition" /\ deferred'[i].b = D.trans[en[1]].name,
                      "not_fired_when_due_and_idle")
             ELSE {}
  IN walk \cup afterStop \cup due

--------------------------------------------------------------------------
(* Prop C09 on one driver step                                               *)
InvTrans == {t \in 1..Len(D.trans) : D.trans[t].bucket \in {"invDone", "invErr"}}
InvOfType(ty) == IF ty \in DOMAIN D.evKind /\ D.evKind[ty].kind = "done" THEN D.evKind[ty].src ELSE ""
AllInvIds == UNION {{D.invokes[s][i].id : i \in 1..Len(D.invokes[s])} : s \in D.states}

RECURSIVE C09Walk(_, _, _, _)
\* g: [ep, doneEp, cur] ; cur = invocation id whose completion event is being processed ("" none)
C09Walk(o, i, g, acc) ==
  IF i > Len(o) THEN acc
  ELSE LET e == o[i] IN
       IF e.k = "sched" THEN C09Walk(o, i + 1, [g EXCEPT !.ep[e.a] = @ + 1], acc)
       ELSE IF e.k \in {"svc_done", "svc_error"} /\ e.a \in AllInvIds THEN
          C09Walk(o, i + 1, [g EXCEPT !.doneEp = [x \in DOMAIN @ \cup {e.a} |-> IF x = e.a THEN g.ep[InvOwner(e.a)] ELSE @[x]]], acc)
       ELSE IF e.k = "event" THEN
          LET inv == InvOfType(e.a)
              stale == inv \in AllInvIds /\ inv \in DOMAIN g.doneEp /\ g.doneEp[inv] # g.ep[InvOwner(inv)]
          IN C09Walk(o, i + 1, [g EXCEPT !.cur = IF stale THEN inv ELSE ""], acc)
       ELSE IF e.k = "on_transition" /\ g.cur # "" /\ \E t \in InvTrans : D.trans[t].name = e.b THEN
          \* a handler of the invocation was driven by a result that an EARLIER activation produced
          C09Walk(o, i + 1, g, acc \cup {"stale_result_drove_handler"})
       ELSE C09Walk(o, i + 1, g, acc)

C09Step ==
  LET o == out'
      walk == C09Walk(o, 1, [ep |-> ghost.ep, doneEp |-> ghost.doneEp, cur |-> ""], {})
      cnt(k, a, b2) == Cardinality({i \in 1..Len(o) : o[i].k = k /\ o[i].a = a /\ (b2 = "" \/ o[i].b = b2)})
      once == \A s \in D.states : \A x \in 1..Len(D.invokes[s]) :
                 cnt("invoke", s, D.invokes[s][x].id) = cnt("sched", s, "")
      unhandled == (lastStep'.op = "reject" /\ status = "running" /\ ~InvRec(lastStep'.ev).hasOnError)
                      => status' = "error"
      zombies == \A v \in svcs' : v.owner \in config' /\ status' # "stopped"
  IN walk \cup Tag(once, "not_started_exactly_once_per_entry")
          \cup Tag(unhandled, "unhandled_failure_not_error_status")
          \cup Tag(zombies, "service_alive_after_exit_or_stop")

--------------------------------------------------------------------------
(* Prop C14 on one driver step: stop() releases everything, nothing is delivered afterwards *)
C14Step ==
  LET quiet == \A i \in 1..Len(out') : out'[i].k \notin {"act", "ax", "on_transition", "event", "subscriber", "sched", "arm", "invoke"}
  IN Tag(status = status' \/ <<status, status'>> \in AllowedStatus, "status_transition")
     \cup Tag(lastStep'.op = "stop" => (timers' = {} /\ svcs' = {} /\ busy' = 0
                                        /\ status' = IF status = "uninitialized" THEN "uninitialized" ELSE "stopped"),
              "stop_releases_everything")
     \cup Tag(status = "stopped" => (quiet /\ config' = config /\ ctx' = ctx /\ status' = "stopped"
                                     /\ timers' = {} /\ svcs' = {}), "activity_after_stop")
     \cup Tag((status \in {"done", "error"} /\ lastStep'.op = "send") => (quiet /\ config' = config /\ queue' = queue),
              "send_after_end")

--------------------------------------------------------------------------
(* Prop C04 on one driver step *)
QTypes(q) == [i \in 1..Len(q) |-> q[i].type]
C04Step ==
  LET drops == \/ status' # "running" \/ status # "running"
               \/ \E i \in 1..Len(out') : out'[i].k \in CutKinds \cup {"loop_error"}
  IN IF lastStep'.op \in {"stop", "wait"} THEN {}
     ELSE C04Log(out', QTypes(queue), QTypes(queue'), <<>>, drops)

OnS(p, v) == IF p \in PropSetS THEN v ELSE {}
SProj == [config |-> config, hist |-> hist, status |-> status, ctx |-> ctx, output |-> output,
          queue |-> [i \in 1..Len(queue) |-> queue[i].type], now |-> now, busy |-> busy,
          timers |-> LET q == SortBy(timers, [t \in timers |-> t.seq]) IN [i \in 1..Len(q) |-> <<q[i].owner, q[i].key, q[i].due>>],
          svcs |-> LET q == SortBy(svcs, [v \in svcs |-> v.seq]) IN [i \in 1..Len(q) |-> <<q[i].owner, q[i].inv>>],
          \* identity of the state only (never compared with the engine): what the suspended macrostep still has to do
          susp |-> susp, pend |-> [i \in 1..Len(deferred) |-> <<deferred[i].k, deferred[i].a, deferred[i].b>>]]
SProj2 == [config |-> config', hist |-> hist', status |-> status', ctx |-> ctx', output |-> output',
           queue |-> [i \in 1..Len(queue') |-> queue'[i].type], now |-> now', busy |-> busy',
           timers |-> LET q == SortBy(timers', [t \in timers' |-> t.seq]) IN [i \in 1..Len(q) |-> <<q[i].owner, q[i].key, q[i].due>>],
           svcs |-> LET q == SortBy(svcs', [v \in svcs' |-> v.seq]) IN [i \in 1..Len(q) |-> <<q[i].owner, q[i].inv>>],
           susp |-> susp', pend |-> [i \in 1..Len(deferred') |-> <<deferred'[i].k, deferred'[i].a, deferred'[i].b>>]]
EmitS == PrintT(ToJson([mi |-> mi, from |-> SProj, step |-> lastStep', to |-> SProj2, out |-> out',
                        prop |-> [C08 |-> OnS("C08", C08Step),
                                  C09 |-> OnS("C09", C09Step),
                                  C14 |-> OnS("C14", C14Step),
                                  C04 |-> OnS("C04", C04Step),
                                  C01 |-> OnS("C01", Tag(status' \in {"running", "done"} => Legal(config'), "final"))]]))
=============================================================================
