----------------------------- MODULE SCSyncFlag -----------------------------
(***************************************************************************)
(* The sync engine's re-entrancy protocol at THREAD granularity.           *)
(*                                                                         *)
(* SyncInterpreter.send() may be called from several threads (the caller,  *)
(* every `after` timer thread, every delayed-send thread, actor runner     *)
(* threads).  Mirrors sync_interpreter.py send / _process_event_queue:     *)
(*                                                                         *)
(*   send(e):  L1 if status # running: return                              *)
(*             L2 queue.append(e)                                          *)
(*   drain:    P1 if flag: return            (test ...                     *)
(*             P2 flag := TRUE               ... and set are separate)     *)
(*             P3 while queue:  (empty -> P5)                              *)
(*             P4     e := popleft(); process e to completion              *)
(*             P5 flag := FALSE                                            *)
(*                                                                         *)
(* One event per thread.  `open` is the set of threads inside P4.          *)
(***************************************************************************)
EXTENDS Naturals, Sequences, FiniteSets, TLC

CONSTANT Threads
VARIABLES pc, queue, flag, open, processed, maxOpen
fvars == <<pc, queue, flag, open, processed, maxOpen>>

Init == /\ pc = [t \in Threads |-> "L2"] /\ queue = <<>> /\ flag = FALSE /\ open = {}
        /\ processed = <<>> /\ maxOpen = 0

L2(t) == /\ pc[t] = "L2" /\ queue' = Append(queue, t) /\ pc' = [pc EXCEPT ![t] = "P1"]
         /\ UNCHANGED <<flag, open, processed, maxOpen>>
P1(t) == /\ pc[t] = "P1" /\ pc' = [pc EXCEPT ![t] = IF flag THEN "done" ELSE "P2"]
         /\ UNCHANGED <<queue, flag, open, processed, maxOpen>>
P2(t) == /\ pc[t] = "P2" /\ flag' = TRUE /\ pc' = [pc EXCEPT ![t] = "P3"]
         /\ UNCHANGED <<queue, open, processed, maxOpen>>
P3(t) == /\ pc[t] = "P3"
         /\ IF queue = <<>> THEN pc' = [pc EXCEPT ![t] = "P5"] /\ UNCHANGED <<queue, open, maxOpen>>
            ELSE /\ queue' = Tail(queue) /\ open' = open \cup {<<t, Head(queue)>>}
                 /\ maxOpen' = IF Cardinality(open') > maxOpen THEN Cardinality(open') ELSE maxOpen
                 /\ pc' = [pc EXCEPT ![t] = "P4"]
         /\ UNCHANGED <<flag, processed>>
P4(t) == /\ pc[t] = "P4"
         /\ \E x \in open : x[1] = t /\ open' = open \ {x} /\ processed' = Append(processed, x[2])
         /\ pc' = [pc EXCEPT ![t] = "P3"]
         /\ UNCHANGED <<queue, flag, maxOpen>>
P5(t) == /\ pc[t] = "P5" /\ flag' = FALSE /\ pc' = [pc EXCEPT ![t] = "done"]
         /\ UNCHANGED <<queue, open, processed, maxOpen>>

Next == \E t \in Threads : L2(t) \/ P1(t) \/ P2(t) \/ P3(t) \/ P4(t) \/ P5(t)
Spec == Init /\ [][Next]_fvars

AllDone == \A t \in Threads : pc[t] = "done"
\* C04: never two macrosteps open at once
OneMacrostepAtATime == Cardinality(open) <= 1
\* C04: every accepted event is processed: when every send() has returned nothing is left queued
NothingStranded == AllDone => queue = <<>>
=============================================================================
