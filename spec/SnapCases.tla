------------------------------ MODULE SnapCases ------------------------------
(***************************************************************************)
(* C12 (f): which single-point corruptions of a persisted snapshot must be *)
(* rejected with a library error.  No behaviour over time: Init enumerates *)
(* every (field, corruption) case, the ACTION_CONSTRAINT-free run prints   *)
(* one JSON line per case with the verdict the property demands; the       *)
(* harness applies each case to the real from_snapshot().                  *)
(*                                                                         *)
(* A snapshot is {status, context, state_ids, configuration, output,       *)
(* error, history, actors, system}.                                        *)
(***************************************************************************)
EXTENDS Naturals, Sequences, TLC, Json

Fields == {"<whole>", "status", "context", "state_ids", "configuration", "output", "error",
           "history", "actors", "system"}
Kinds == {"null", "bool", "number", "string", "list", "object", "missing", "unknown_id", "garbage_json"}

\* JSON type each field must have to be interpretable; "any" = every JSON value is acceptable
Needs(f) == CASE f = "<whole>" -> "object"
              [] f = "status" -> "status_string"
              [] f = "context" -> "object"
              [] f \in {"state_ids", "configuration"} -> "id_list"
              [] f \in {"history", "actors", "system"} -> "object"
              [] OTHER -> "any"

\* does replacing field f by a value of kind k leave an interpretable snapshot?
Acceptable(f, k) ==
  LET n == Needs(f) IN
  CASE k = "garbage_json" -> FALSE                                   \* not JSON at all
    [] n = "any" -> TRUE
    [] k = "missing" -> f \in {"state_ids", "history", "actors", "system", "output", "error"}
                        \* configuration falls back to state_ids and vice versa; both present here
                        \/ f = "configuration"
    [] k = "null" -> f \in {"history", "actors", "system", "configuration"}   \* treated as absent
    [] n = "object" -> k = "object"
    [] n = "status_string" -> FALSE                                   \* a corrupted status is never a known status
    [] n = "id_list" -> k = "list"                                    \* an (empty) list of ids; unknown ids rejected
    [] OTHER -> FALSE

Applicable(f, k) == /\ (k = "garbage_json" => f = "<whole>")
                    /\ (k = "unknown_id" => f \in {"state_ids", "configuration", "history"})
                    /\ (f = "<whole>" => k \notin {"missing", "unknown_id", "object"})

Expected(f, k) == IF k = "unknown_id" THEN (IF f = "history" THEN "accept" ELSE "reject")
                  ELSE IF Acceptable(f, k) THEN "accept" ELSE "reject"

VARIABLES f, k
Init == /\ f \in Fields /\ k \in Kinds /\ Applicable(f, k)
        /\ PrintT(ToJson([field |-> f, kind |-> k, expected |-> Expected(f, k)]))
Next == UNCHANGED <<f, k>>
Spec == Init /\ [][Next]_<<f, k>>
=============================================================================
