----------------------------- MODULE SuiteLegal -----------------------------
(***************************************************************************)
(* Trace validation of the repository's OWN test suite against Prop C01.   *)
(*                                                                         *)
(* harness/suite_trace.py (a pytest plugin living outside the repository)  *)
(* subscribes to every interpreter the suite creates and records each      *)
(* configuration a subscriber is shown, with the machine's state tree.     *)
(* Module Batch holds one (minimal) definition record per machine -        *)
(* root, states, parent, kind, children - and module SuiteObs the observed *)
(* configurations.  TLC evaluates Legal on every one of them: the          *)
(* existing functional tests become a trace source for the invariant.      *)
(***************************************************************************)
EXTENDS SCProps, SuiteObs, Json

VARIABLE oi
SInit == mi \in 1..Len(Machines) /\ oi \in 1..Len(Observed[mi])
SNext == UNCHANGED <<mi, oi>>
SSpec == SInit /\ [][SNext]_<<mi, oi>>

Cfg == {Observed[mi][oi].config[i] : i \in 1..Len(Observed[mi][oi].config)}
Judged == Observed[mi][oi].status \in {"running", "done"}
Report == (Judged /\ ~Legal(Cfg)) => PrintT(ToJson([mi |-> mi, oi |-> oi, config |-> Observed[mi][oi].config,
                                                   status |-> Observed[mi][oi].status]))
=============================================================================
