------------------------------ MODULE TraceCore ------------------------------
(***************************************************************************)
(* Code -> spec: validation of steps recorded from the real engines.       *)
(*                                                                         *)
(* traces.ndjson (in the working directory) holds one trace per line:      *)
(*   {"mi": n, "eng": "sync|async|pure", "steps": [ {pre, step, post, out} ]}*)
(* where pre/post are projected interpreter states and out is the recorder *)
(* log of that public step.  For every step TLC evaluates                  *)
(*   - the Prop predicates of SCProps on what was OBSERVED, and            *)
(*   - impl_match: whether the Impl layer (SCCore) computes exactly the    *)
(*     observed post-state and log from the observed pre-state.            *)
(* Verdicts are total: one JSON line per step, the next step continues     *)
(* from the observed state, nothing stops at the first disagreement.       *)
(***************************************************************************)
EXTENDS SCProps, Json

Traces == ndJsonDeserialize("traces.ndjson")
CONSTANT PropSet

VARIABLES ti, l
tvars == <<mi, ti, l>>

ToSet(q) == {q[i] : i \in 1..Len(q)}
FullHist(h) == [p \in HistOwners |-> IF p \in DOMAIN h THEN ToSet(h[p]) ELSE {}]
St(j) == [config |-> ToSet(j.config), hist |-> FullHist(j.hist), status |-> j.status,
          ctx |-> j.ctx, output |-> j.output, err |-> j.err]
OutOf(jo) == [i \in 1..Len(jo) |->
                [k |-> jo[i][1], a |-> jo[i][2], b |-> jo[i][3], c |-> ToSet(jo[i][4]), d |-> ToSet(jo[i][5])]]
StepOf(j) == [op |-> j.op, ev |-> j.ev, evs |-> IF "evs" \in DOMAIN j THEN j.evs ELSE <<>>, gv |-> j.gv,
              faults |-> IF "faults" \in DOMAIN j THEN ToSet(j.faults) ELSE {}]

Unpack(s) == [config |-> s.config, hist |-> s.hist, status |-> s.status, ctx |-> s.ctx,
              queue |-> <<>>, out |-> <<>>, err |-> NoErr, rd |-> 0, output |-> s.output, gv |-> <<>>,
              faults |-> {}, halt |-> FALSE, slow |-> 0]

ImplStep(pre, step, eng) ==
  LET e0 == IF eng = "pure" THEN "pure" ELSE eng
      \* the pure API forgets history (and output) between calls; done/error snapshots are final
      p0 == IF eng = "pure" /\ step.op = "send"
            THEN [Unpack(pre) EXCEPT !.hist = [p \in HistOwners |-> {}], !.output = NONE]
            ELSE Unpack(pre)
  IN CASE step.op = "start" /\ pre.status # "uninitialized" -> RestartStep(p0)
       [] step.op = "start" -> StartStep([p0 EXCEPT !.faults = step.faults], step.gv, e0)
       [] step.op = "send" /\ step.faults # {} -> SendStep([p0 EXCEPT !.faults = step.faults], step.ev, step.gv, e0)
       [] step.op = "send" /\ eng = "pure" /\ pre.status # "running" -> Unpack(pre)
       [] step.op = "send"  -> SendStep(p0, step.ev, step.gv, e0)
       [] step.op = "can"   -> CanStep(p0, step.ev, step.gv)
       [] step.op = "stop"  -> StopStep(p0)
       [] step.op = "batch" -> BatchStep(p0, step.evs, step.gv, e0)
       [] OTHER -> p0

ErrHead(e) == IF e = <<>> THEN <<>> ELSE <<e[1]>>
Visible(out, eng) == IF eng = "pure" THEN SelectSeq(out, LAMBDA e : e.k = "rec") ELSE out

ImplMatch(pre, step, post, out, eng) ==
  LET r == ImplStep(pre, step, eng)
  IN \* non-termination is cut off at the same event count on both sides; only the verdict compares
     IF ErrHead(r.err) = <<"Diverged">> \/ ErrHead(post.err) = <<"Diverged">>
     THEN ErrHead(r.err) = ErrHead(post.err)
     ELSE
     /\ r.config = post.config
     /\ r.status = post.status
     /\ r.ctx = post.ctx
     /\ r.output = post.output
     /\ ErrHead(r.err) = ErrHead(post.err)
     /\ (eng # "pure" => r.hist = post.hist)
     /\ Visible(r.out, eng) = out

Init == /\ ti \in 1..Len(Traces) /\ l = 0 /\ mi = Traces[ti].mi
Next == /\ l < Len(Traces[ti].steps) /\ l' = l + 1 /\ UNCHANGED <<mi, ti>>
Spec == Init /\ [][Next]_tvars

On(p, v) == IF p \in PropSet THEN v ELSE {}
Verdict ==
  LET j == Traces[ti].steps[l']
      eng == Traces[ti].eng
      pre == St(j.pre)
      post == St(j.post)
      step == StepOf(j.step)
      out == OutOf(j.out)
  IN [ti |-> ti, l |-> l', tag |-> Traces[ti].tag,
      impl_match |-> ImplMatch(pre, step, post, out, eng),
      prop |-> [C01 |-> On("C01", C01(pre, step, post, out)),
                C02 |-> On("C02", C02(pre, step, post, out)),
                C03 |-> On("C03", C03(pre, step, post, out)),
                C10 |-> On("C10", C10(pre, step, post, out, eng)),
                C11 |-> On("C11", C11(pre, step, post, out, eng)),
                C06 |-> On("C06", C06(pre, step, post, out)),
                C20 |-> On("C20", C20(pre, step, post, out)),
                C13 |-> On("C13", C13(pre, step, post, out)),
                C14 |-> On("C14", C14(pre, step, post, out)),
                C04 |-> On("C04", C04(pre, step, post, out)),
                C07 |-> On("C07", C07Abort(pre, step, post, out) \cup
                             (IF "clean" \in DOMAIN j /\ step.faults # {}
                              THEN C07Pair(St(j.clean.post), OutOf(j.clean.out), post, out, step.faults) ELSE {}))]]

Emit == PrintT(ToJson(Verdict))
=============================================================================
