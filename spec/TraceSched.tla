----------------------------- MODULE TraceSched -----------------------------
(***************************************************************************)
(* Code -> spec for the scheduling layer: runs of the real async engine    *)
(* under the virtual-time loop, recorded as one log per driver step with   *)
(* its virtual timestamp, are walked by TLC; Prop C08 (SCSched!C08Walk) is *)
(* evaluated on every step with the ghost `entered` carried along the run. *)
(* traces.ndjson: {"mi": n, "tag": "...", "steps": [{"t": ms, "op": "...", *)
(* "out": [[k,a,b,[c],[d]], ...]}]}                                         *)
(***************************************************************************)
EXTENDS SCSched

TracesS == ndJsonDeserialize("traces.ndjson")
VARIABLES ti, l, ent, stopped, epv, dep, pq,
          exq        \* states whose exit has begun (tasks cancelled, or an exit action run) and that were not re-entered since
tsvars == <<svars, ti, l, ent, stopped, epv, dep, pq, exq>>

ToSetS(q) == {q[i] : i \in 1..Len(q)}
OutOfS(jo) == [i \in 1..Len(jo) |->
                [k |-> jo[i][1], a |-> jo[i][2], b |-> jo[i][3], c |-> ToSetS(jo[i][4]), d |-> ToSetS(jo[i][5])]]

RECURSIVE EnteredAfter(_, _, _, _)
EnteredAfter(o, i, t, e) ==
  IF i > Len(o) THEN e
  ELSE EnteredAfter(o, i + 1, t, IF o[i].k = "sched" THEN [e EXCEPT ![o[i].a] = t] ELSE e)

RECURSIVE EpAfter(_, _, _)
\* [ep, doneEp] after a step's log
EpAfter(o, i, g) ==
  IF i > Len(o) THEN g
  ELSE IF o[i].k = "sched" THEN EpAfter(o, i + 1, [g EXCEPT !.ep[o[i].a] = @ + 1])
  ELSE IF o[i].k \in {"svc_done", "svc_error"} /\ o[i].a \in AllInvIds
       THEN EpAfter(o, i + 1, [g EXCEPT !.doneEp = [x \in DOMAIN @ \cup {o[i].a} |->
                                     IF x = o[i].a THEN g.ep[InvOwner(o[i].a)] ELSE @[x]]])
  ELSE EpAfter(o, i + 1, g)

\* A notification (timer expiry, service outcome) produced for an owner whose exit has already begun: the owner's
\* tasks are cancelled BEFORE its exit actions run, so nothing of the activation being left may still report.
RECURSIVE ExitWalk(_, _, _, _)
ExitWalk(o, i, q, acc) ==        \* returns [q, c08, c09]
  IF i > Len(o) THEN [q |-> q, c08 |-> acc.c08, c09 |-> acc.c09]
  ELSE LET e == o[i] IN
       IF e.k = "cancel" THEN ExitWalk(o, i + 1, q \cup {e.a}, acc)
       ELSE IF e.k = "act" /\ e.a \in DOMAIN D.actInfo /\ D.actInfo[e.a].sec = "exit" THEN ExitWalk(o, i + 1, q \cup {D.actInfo[e.a].owner}, acc)
       ELSE IF e.k \in {"sched", "rearm"} THEN ExitWalk(o, i + 1, q \ {e.a}, acc)     \* (re-)entered, or restored by a rollback
       ELSE IF e.k = "timer_fired" /\ e.a \in q
            THEN ExitWalk(o, i + 1, q, [acc EXCEPT !.c08 = @ \cup {"timer_fired_after_owner_began_to_exit"}])
       ELSE IF e.k \in {"svc_done", "svc_error"} /\ e.a \in AllInvIds /\ InvOwner(e.a) \in q
            THEN ExitWalk(o, i + 1, q, [acc EXCEPT !.c09 = @ \cup {"service_outcome_after_owner_began_to_exit"}])
       ELSE ExitWalk(o, i + 1, q, acc)

TInit == /\ ti \in 1..Len(TracesS) /\ l = 0 /\ mi = TracesS[ti].mi /\ exq = {}
         /\ epv = [s \in Machines[TracesS[ti].mi].states |-> 0] /\ dep = <<>> /\ pq = <<>>
         /\ ent = [s \in Machines[TracesS[ti].mi].states |-> 0] /\ stopped = FALSE
         /\ status = "" /\ config = {} /\ hist = <<>> /\ ctx = <<>> /\ output = "" /\ queue = <<>> /\ now = 0
         /\ timers = {} /\ svcs = {} /\ busy = 0 /\ busySeq = 0 /\ seq = 0 /\ deferred = <<>> /\ susp = <<>> /\ ghost = <<>> /\ out = <<>>
         /\ lastStep = <<>>
TNext == /\ l < Len(TracesS[ti].steps) /\ l' = l + 1
         /\ LET j == TracesS[ti].steps[l'] IN
              /\ ent' = EnteredAfter(OutOfS(j.out), 1, j.t, ent)
              /\ stopped' = (stopped \/ j.op = "stop")
              /\ pq' = IF "queue" \in DOMAIN j THEN j.queue ELSE <<>>
              /\ LET g == EpAfter(OutOfS(j.out), 1, [ep |-> epv, doneEp |-> dep]) IN epv' = g.ep /\ dep' = g.doneEp
              /\ exq' = ExitWalk(OutOfS(j.out), 1, exq, [c08 |-> {}, c09 |-> {}]).q
         /\ UNCHANGED <<svars, ti>>
TSpec == TInit /\ [][TNext]_tsvars

TVerdict ==
  LET j == TracesS[ti].steps[l']
      o == OutOfS(j.out)
  IN [ti |-> ti, l |-> l', tag |-> TracesS[ti].tag,
      C09 |-> C09Walk(o, 1, [ep |-> epv, doneEp |-> dep, cur |-> ""], {})
              \cup ExitWalk(o, 1, exq, [c08 |-> {}, c09 |-> {}]).c09
              \* a plain callable has returned or raised when it was called: its one outcome is reported in the same step
              \cup Tag(\A src \in {x \in DOMAIN D.serviceKind : D.serviceKind[x] \in {"ok", "fail"}} :
                        Cardinality({i \in 1..Len(o) : o[i].k = "svc_called" /\ o[i].a = src})
                        = Cardinality({i \in 1..Len(o) : o[i].k \in {"svc_done", "svc_error"} /\ o[i].a \in AllInvIds
                                                         /\ InvRec(o[i].a).src = src}),
                      "plain_service_call_without_exactly_one_outcome")
              \cup (IF "svcs" \in DOMAIN j THEN
                      Tag(\A x \in 1..Len(j.svcs) : j.svcs[x][1] \in ToSetS(j.config) /\ j.status # "stopped",
                          "service_alive_after_exit_or_stop")
                    ELSE {})
              \cup Tag(\A s \in D.states : \A x \in 1..Len(D.invokes[s]) :
                        Cardinality({i \in 1..Len(o) : o[i].k = "invoke" /\ o[i].a = s /\ o[i].b = D.invokes[s][x].id})
                        = Cardinality({i \in 1..Len(o) : o[i].k = "sched" /\ o[i].a = s}),
                      "not_started_exactly_once_per_entry"),
      C04 |-> (IF j.op \in {"stop", "wait"} \/ "queue" \notin DOMAIN j THEN {}
               ELSE C04Log(o, pq, j.queue, <<>>,
                           \/ j.status # "running" \/ stopped
                           \/ \E i \in 1..Len(o) : o[i].k \in CutKinds \cup {"loop_error"})),
      C01 |-> (IF "config" \in DOMAIN j /\ j.status \in {"running", "done"} THEN Tag(Legal(ToSetS(j.config)), "final") ELSE {}),
      C14 |-> (IF stopped \/ j.op = "stop" THEN
                 Tag(("svcs" \in DOMAIN j => j.svcs = <<>>) /\ ("timers" \in DOMAIN j => j.timers = <<>>), "stop_releases_everything")
                 \cup (IF stopped THEN Tag(\A i \in 1..Len(o) : o[i].k \notin {"on_transition", "act", "event", "sched", "arm", "invoke"},
                                           "activity_after_stop") ELSE {})
               ELSE {}),
      C08 |-> C08Walk(o, 1, j.t, [entered |-> ent, sel |-> ent, fired |-> {}], {})
              \cup ExitWalk(o, 1, exq, [c08 |-> {}, c09 |-> {}]).c08
              \* an expiry that ARRIVED in the queue during this step although its owner's exit had begun before the step
              \* (the recorder does not see the expiry itself; the queue is observed after every driver step)
              \cup (IF "queue" \in DOMAIN j THEN
                      Tag(\A x \in AfterTrans :
                            LET ty == D.trans[x].key
                                cnt(q) == Cardinality({i \in 1..Len(q) : q[i] = ty})
                            IN (D.trans[x].src \in exq) => cnt(j.queue) <= cnt(pq),
                          "timer_fired_after_owner_began_to_exit")
                    ELSE {})
              \cup (IF stopped THEN Tag(\A i \in 1..Len(o) : o[i].k \notin {"on_transition", "act", "event"}, "activity_after_stop")
                    ELSE {})]
TEmit == PrintT(ToJson(TVerdict))
=============================================================================
