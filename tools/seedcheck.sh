#!/bin/bash
# usage: seedcheck.sh <PROP> <a|b> <check ids...>
P=$1; V=$2; shift 2
WT=/tmp/seedwt/$P
cd $WT || exit 2
git checkout -q -- . 
echo "== $P$V clean demo: $(PYTHONPATH=$WT/src /venv/bin/python /tmp/seedwt/demo_$P$V.py >/dev/null 2>&1; echo rc=$?)"
git apply /tmp/seedwt/out_$P$V.diff || { echo "PATCH FAILS"; exit 3; }
echo "== $P$V seeded demo: $(PYTHONPATH=$WT/src /venv/bin/python /tmp/seedwt/demo_$P$V.py >/dev/null 2>&1; echo rc=$?)"
for c in "$@"; do
  out=$(cd /verif && VERIF_EVIDENCE_DIR=/tmp/seed_evidence VERIF_REPO_SRC=$WT/src VERIF_PROCS=6 ./check "$c" --tier quick 2>&1); rc=$?
  echo "$P$V check=$c rc=$rc $(echo "$out" | grep -c '^VIOLATION') violations; $(echo "$out" | grep -E '^(VIOLATION|DIVERGENCE|KNOWN|MACHINERY|OK|  clauses)' | head -n 8 | tr '\n' '|' | cut -c1-700)"
done
git checkout -q -- .
