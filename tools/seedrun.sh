#!/bin/bash
# usage: seedrun.sh <patch.diff> <check-id> [<check-id>...]   -- applies a seeded change to /repo, runs quick checks, reverts
patch="$1"; shift
cd /repo || exit 2
if ! git apply --check "$patch" 2>/dev/null; then echo "PATCH-DOES-NOT-APPLY $patch"; exit 3; fi
git apply "$patch"
for c in "$@"; do
  out=$(cd /verif && ./check "$c" --tier quick 2>&1); rc=$?
  echo "check=$c rc=$rc $(echo "$out" | grep -c '^VIOLATION') violations; $(echo "$out" | grep -E '^(VIOLATION|DIVERGENCE|KNOWN|MACHINERY|OK)' | head -n 3 | tr '\n' '|' | cut -c1-400)"
done
git -C /repo checkout -- .
