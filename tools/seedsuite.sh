#!/bin/bash
# usage: seedsuite.sh <seed-id>:<check>[,<check>...] ...   e.g. seedsuite.sh C01a:C01 C03a:C03,C01
# Applies each archived seeded change to /repo, runs the named quick checks, reverts; prints one line per run.
for item in "$@"; do
  id="${item%%:*}"; checks="${item#*:}"
  echo "## $id"
  /verif/tools/seedrun.sh /verif/seeded/$id/patch.diff ${checks//,/ } | cut -c1-260
done
