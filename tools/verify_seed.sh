#!/bin/bash
# usage: verify_seed.sh <out-dir-with-patch.diff,demo.py> <name>
# Confirms a seeded change in a scratch worktree of /repo HEAD: patch applies, demo passes on
# pristine and fails with the change, the whole test suite still passes with the change.
set -u
src="$1"; name="$2"
wt="/tmp/seedverify/wt-$name"; log="/tmp/seedverify/$name.log"
mkdir -p /tmp/seedverify
git -C /repo worktree add --detach "$wt" HEAD >/dev/null 2>&1 || { echo "worktree failed" > "$log"; exit 2; }
{
  echo "== pristine demo"; (cd "$wt" && PYTHONPATH="$wt/src" timeout 300 /venv/bin/python "$src/demo.py" 2>&1 | tail -n 5; echo "pristine_rc=${PIPESTATUS[0]}")
  echo "== apply"; if git -C "$wt" apply "$src/patch.diff"; then echo "apply_ok=1"; else echo "apply_ok=0"; fi
  echo "== patched demo"; (cd "$wt" && PYTHONPATH="$wt/src" timeout 300 /venv/bin/python "$src/demo.py" 2>&1 | tail -n 8; echo "patched_rc=${PIPESTATUS[0]}")
  echo "== suite"; (cd "$wt" && PYTHONPATH="$wt/src" /venv/bin/python -m pytest -q -p no:cacheprovider -n 4 --timeout=900 2>&1 | tail -n 3)
} > "$log" 2>&1
git -C /repo worktree remove --force "$wt" >/dev/null 2>&1
echo "done $name"
